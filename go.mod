module verif

go 1.26.8

require github.com/anishathalye/porcupine v1.3.0

#!/bin/sh
# usage: tools_sweep.sh "<props>" "<seeds>" [budget]  -- runs quick checks and prints one summary line each
export GOFLAGS=-mod=mod GOPROXY=off GOSUMDB=off GOTOOLCHAIN=local
[ -x bin/vcheck ] || go1.26.8 build -o bin/vcheck ./cmd/vcheck
for sd in $2; do for p in $1; do
  VERIF_SEED=$sd ./bin/vcheck run --property $p ${3:+--budget $3} > sweep-$p-$sd.txt 2>&1; rc=$?
  echo "SWEEP $p seed=$sd exit=$rc $(grep '^vcheck: C' sweep-$p-$sd.txt | cut -c1-160)"
  grep "^VIOLATION\|^  class\|INFRASTRUCTURE\|UNREPRODUCED" sweep-$p-$sd.txt | cut -c1-300 | head -8
done; done

#!/bin/sh
# usage: tools_mutant.sh <seeded-dir> <property> [budget]
# applies the seeded patch in a scratch worktree of /repo (never in /repo itself), runs the check against
# that worktree (VERIF_REPO_OVERRIDE), removes the worktree
d=$1; p=$2; b=${3:-40}
wt=/tmp/mutrepo-$$
git -C /repo worktree add --detach $wt >/dev/null 2>&1 || { echo "WORKTREE FAILED"; exit 9; }
( cd $wt && git apply "$d/patch.diff" ) || { echo "PATCH FAILED"; git -C /repo worktree remove --force $wt; exit 9; }
mkdir -p /tmp/vt
ls /verif/replays > /tmp/vt/replays-before-$$.txt
cd /verif && VERIF_REPO_OVERRIDE=$wt ./bin/vcheck run --property $p --budget $b > /tmp/vt/mut-$p-$$.txt 2>&1; rc=$?
git -C /repo worktree remove --force $wt
# replay files written by a mutant run describe the mutant, not the tree: drop them
ls /verif/replays | grep -vxFf /tmp/vt/replays-before-$$.txt | while read f; do rm -f "/verif/replays/$f"; done
rm -f /tmp/vt/replays-before-$$.txt
echo "mutant $(basename $d) vs $p: exit=$rc"
grep "^VIOLATION\|^  class\|^vcheck: C\|INFRASTRUCTURE" /tmp/vt/mut-$p-$$.txt | cut -c1-260 | head -10
rm -f /tmp/vt/mut-$p-$$.txt

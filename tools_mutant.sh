#!/bin/sh
# usage: tools_mutant.sh <seeded-dir> <property> [budget]  -- applies patch to /repo, runs the check, reverts
d=$1; p=$2; b=${3:-40}
cd /repo && git apply "$d/patch.diff" || { echo "PATCH FAILED"; exit 9; }
cd /verif && ./bin/vcheck run --property $p --budget $b > /tmp/vt/mut-$p.txt 2>&1; rc=$?
cd /repo && git checkout -- . && git status --short | head -3
echo "mutant $(basename $d) vs $p: exit=$rc"
grep "^VIOLATION\|^  class\|^vcheck: C\|INFRASTRUCTURE" /tmp/vt/mut-$p.txt | cut -c1-260 | head -10

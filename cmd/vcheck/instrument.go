package main

import (
	"fmt"
	"os"
	"path/filepath"
	"regexp"
	"strings"
)

// Fine-grained mode ("simast-lite", DESIGN §2.4): a textual, line-based rewrite of a fixed list of
// files of /repo's CURRENT working tree into scratch copies that the -overlay maps over the
// originals. /repo is never written. The rewrite swaps sync/atomic types for their yielding twins
// in simrt and puts a yield in front of select statements and channel send/receive statements.
// Only harnesses listed in fineGrained get it.

var fineGrained = map[string][]string{
	"hkernel": {
		"internal/containers/mpmc/queue.go",
		"internal/containers/mpsc/accumulator.go",
		"internal/listobjects/pipeline/internal/track/reporting.go",
		"internal/listobjects/pipeline/internal/worker/core.go",
		"internal/listobjects/pipeline/internal/worker/cycle.go",
		"internal/listobjects/pipeline/internal/worker/basic.go",
		"internal/listobjects/pipeline/internal/worker/medium.go",
	},
	"hsql": {
		"pkg/storage/memory/memory.go",
	},
	"hiter": {
		"pkg/storage/storagewrappers/sharediterator/shared_iterator_datastore.go",
	},
	// the classic ListObjects engine with its result-limit counter behind a yielding atomic: the
	// goroutines that confirm candidates race for the last slots of a limited answer ("path#ident"
	// = swap the atomic types only on the lines that mention ident, add no other yields)
	"hlo": {
		"pkg/server/commands/list_objects.go#objectsFound",
	},
	"hpipe": {
		"internal/containers/mpmc/queue.go",
		"internal/containers/mpsc/accumulator.go",
		"internal/listobjects/pipeline/internal/track/reporting.go",
		"internal/listobjects/pipeline/internal/worker/core.go",
		"internal/listobjects/pipeline/internal/worker/cycle.go",
		"internal/listobjects/pipeline/internal/worker/basic.go",
		"internal/listobjects/pipeline/internal/worker/medium.go",
		"internal/listobjects/pipeline/internal/worker/difference.go",
		"internal/listobjects/pipeline/internal/worker/intersection.go",
		"internal/listobjects/pipeline/pipeline.go",
	},
}

// harnessPkg maps a harness name to the sim package that hosts it (default: the same name). "hpipe"
// is the engine harness compiled with the fine-grained instrumentation over the pipeline sources.
var harnessPkg = map[string]string{"hpipe": "hengine", "hlo": "hengine"}

func pkgOf(harness string) string {
	if p, ok := harnessPkg[harness]; ok {
		return p
	}
	return harness
}

func needsInstrumentation(harness string) bool { return len(fineGrained[harness]) > 0 }

var swaps = []struct{ from, to string }{
	{"atomic.Int64", "simrt.AtomicInt64"},
	{"atomic.Uint64", "simrt.AtomicUint64"},
	{"atomic.Int32", "simrt.AtomicInt32"},
	{"atomic.Uint32", "simrt.AtomicUint32"},
	{"atomic.Bool", "simrt.AtomicBool"},
	{"atomic.Pointer[", "simrt.AtomicPointer["},
	{"sync.RWMutex", "simrt.RWMutex"},
	{"sync.Mutex", "simrt.Mutex"},
}

var (
	reSelect = regexp.MustCompile(`^(\s*)select \{\s*$`)
	reSend   = regexp.MustCompile(`^(\s*)[A-Za-z_][\w\.\[\]\(\)]* <- .+$`)
	reRecv   = regexp.MustCompile(`^(\s*)(?:[\w, ]+ :?= )?<-[A-Za-z_][\w\.\[\]\(\)]*\s*$`)
	reImport = regexp.MustCompile(`(?m)^import \(\n`)
)

const simrtImport = "github.com/openfga/openfga/internal/verifsim/simrt"

// instrument rewrites the listed files into dir and returns overlay entries original -> copy.
func instrument(dir, harness string) (map[string]string, error) {
	if err := os.MkdirAll(dir, 0o755); err != nil {
		return nil, err
	}
	out := map[string]string{}
	total := 0
	minPoints := 5
	for _, rel := range fineGrained[harness] {
		rel, only, filtered := strings.Cut(rel, "#")
		src := filepath.Join(repoDir, rel)
		data, err := os.ReadFile(src)
		if err != nil {
			return nil, err
		}
		s := string(data)
		nSwap := 0
		if filtered {
			minPoints = 2
			ls := strings.Split(s, "\n")
			for i, l := range ls {
				if !strings.Contains(l, only) {
					continue
				}
				for _, sw := range swaps {
					nSwap += strings.Count(l, sw.from)
					l = strings.ReplaceAll(l, sw.from, sw.to)
				}
				ls[i] = l
			}
			s = strings.Join(ls, "\n")
		} else {
			for _, sw := range swaps {
				nSwap += strings.Count(s, sw.from)
				s = strings.ReplaceAll(s, sw.from, sw.to)
			}
		}
		lines := strings.Split(s, "\n")
		var res []string
		nYield := 0
		inCase := false
		for _, l := range lines {
			if filtered {
				res = append(res, l)
				continue
			}
			trim := strings.TrimSpace(l)
			// never touch select cases ("case x <- v:", "case v := <-c:")
			inCase = strings.HasPrefix(trim, "case ") || strings.HasPrefix(trim, "default:")
			if m := reSelect.FindStringSubmatch(l); m != nil {
				res = append(res, m[1]+`simrt.Yield("select")`)
				nYield++
			} else if !inCase && !strings.HasPrefix(trim, "//") && !strings.HasPrefix(trim, "return ") {
				if m := reSend.FindStringSubmatch(l); m != nil {
					res = append(res, m[1]+`simrt.Yield("send")`)
					nYield++
				} else if m := reRecv.FindStringSubmatch(l); m != nil {
					res = append(res, m[1]+`simrt.Yield("recv")`)
					nYield++
				}
			}
			res = append(res, l)
		}
		s = strings.Join(res, "\n")
		total += nSwap + nYield
		if nSwap+nYield == 0 {
			continue // nothing to instrument in this file: the original is used
		}
		if !strings.Contains(s, simrtImport) {
			if !reImport.MatchString(s) {
				return nil, fmt.Errorf("%s: no import block", rel)
			}
			s = reImport.ReplaceAllString(s, "import (\n\t\""+simrtImport+"\"\n")
		}
		// drop now-unused imports (the compiler rejects them)
		for _, pkg := range []string{"sync/atomic", "sync"} {
			short := pkg[strings.LastIndex(pkg, "/")+1:]
			body := s[strings.Index(s, ")\n"):]
			if !strings.Contains(body, short+".") {
				s = strings.Replace(s, "\t\""+pkg+"\"\n", "", 1)
			}
		}
		dst := filepath.Join(dir, strings.ReplaceAll(rel, "/", "_"))
		if err := os.WriteFile(dst, []byte(s), 0o644); err != nil {
			return nil, err
		}
		out[src] = dst
	}
	if total < minPoints {
		return nil, fmt.Errorf("only %d instrumentation points found in %d files (sources changed shape?)", total, len(fineGrained[harness]))
	}
	return out, nil
}

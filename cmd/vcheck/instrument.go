package main

// needsInstrumentation reports whether the harness is built in fine-grained mode (simast rewrites).
func needsInstrumentation(harness string) bool { return false }

// instrument rewrites the listed packages of /repo into dir and returns overlay entries.
func instrument(dir, harness string) (map[string]string, error) { return nil, nil }

package main

var realEngine = []string{"pkg/server (handlers as Go methods)", "pkg/server/commands/**", "internal/graph", "internal/check", "internal/planner (Server level)", "pkg/typesystem", "internal/validation", "internal/condition (real CEL)", "pkg/storage/storagewrappers/**", "pkg/storage/memory", "pkg/tuple", "theine (model/typesystem caches)"}
var stubEngine = []string{"SimDatastore wrapper (latency/faults) around the real memory backend", "SimPlanner where the planner interface is accepted (command level)", "gRPC/HTTP transport absent", "logger/tracer no-op"}

func init() {
	reg(&propInfo{ID: "C01", Harness: "hengine", Level: "exploration", QuickS: 45, ThoroughS: 900,
		Rule:   "seeded scenarios (stratified model over <=4 types, <=34 tuples incl. leftovers/wildcards/usersets/conditions, 12 Check requests of all three subject kinds with contexts and contextual tuples) executed in a synctest bubble against command-level (forced strategies) or Server-level Check, twin and storage-fault configurations; every answer judged by the Kleene least-fixpoint reference model. A run is non-trivial if tuples exist and at least one answer was judged; distinct = distinct event-log digest.",
		Real:   realEngine, Stub: stubEngine,
		Assume:    []string{"reference model (sim/refmodel) is the specification", "memory backend only", "workers GOMAXPROCS=1"},
		LevelText: "seeded exploration: thousands of generated (model, tuples, request) scenarios per minute, each executed against the real engine inside a virtual-time bubble with forced strategies, storage latency orderings and storage faults, judged by an independent least-fixpoint reference model with supervaluation for unevaluable conditions; evidence, not proof",
		LevelNote: "trusts the reference model, the generator's bounded vocabulary (<=4 types, <=3 objects per type, 4 condition families) and the memory backend; SQL backends are outside this check",
		Technique: "deterministic simulation (synctest bubble + seeded scheduler/faults) with reference-model oracle", DesignRef: "§3 C01"})
	eng := func(id string, quick, thorough float64, rule, text, ref string) {
		reg(&propInfo{ID: id, Harness: "hengine", Level: "exploration", QuickS: quick, ThoroughS: thorough, Rule: rule, Real: realEngine, Stub: stubEngine,
			Assume:    []string{"reference model (sim/refmodel) is the specification", "memory backend only", "workers GOMAXPROCS=1"},
			LevelText: text, LevelNote: "trusts the reference model, the generator's bounded vocabulary and the memory backend; evidence from sampling, not proof",
			Technique: "deterministic simulation (synctest bubble + seeded scheduler/faults) with reference-model oracle", DesignRef: ref})
	}
	eng("C02", 45, 900, "C01 scenarios evaluated under a vector of 5 configurations per run (forced strategy policy default/fast/per-call/hash, breadth 1/2/25, read concurrency, check optimisations, dispatch throttling with tiny thresholds, ListObjects engine classic/weighted/pipeline with chunk/buffer/procs knobs), sequentially with repetition or as 3 concurrent copies of every request; all definite answers must agree with each other and with the reference. Non-trivial: tuples exist and answers judged; distinct = event-log digest.",
		"seeded exploration of the configuration x schedule space: every request answered under five strategy/tuning configurations (two of them seed-chosen), repeated and concurrent; cross-configuration equality plus the C01 oracle", "§3 C02")
	eng("C03", 45, 900, "C01 scenarios with object, wildcard and userset subjects sent to a Server with weighted_graph_check on (fallback path included) and, for userset/wildcard subjects, to a default-engine Server; object subjects judged by the reference oracle, other subjects by 'difference implies a reported breaking-change warning or a documented request-shape rejection' using a capturing logger.",
		"seeded exploration of the v2 (weighted graph) Check path against the reference (object subjects) and against the default engine plus the breaking-change detector (userset/wildcard subjects)", "§3 C03")
	eng("C04", 45, 900, "tuple set split by the seed into stored A and contextual B; each Check/ListObjects/ListUsers/Expand request is issued with a subset of B as contextual tuples and, against a clone store holding A∪subset, without; responses must be equal, equal the reference on its own tuples, and the store must be unchanged afterwards; optionally all caches on (SimCache with evictions) and concurrent clients.",
		"seeded exploration of contextual-vs-stored equivalence and non-leakage across interleaved requests with caches", "§3 C04")
	eng("C05", 45, 900, "C01 scenarios with 8 ListObjects/StreamedListObjects requests per run on the classic, weighted and pipeline engines (chunk 1-2, buffer 2-4, 1-3 procs), limits 0-3, short virtual deadlines against injected latency, storage faults; oracle: returned ⊆ permitted, no duplicates, complete when untruncated, exactly limit when the limit applies.",
		"seeded exploration of ListObjects on all three engines under limits, deadlines, worker interleavings and storage faults, judged by the reference set", "§3 C05")
	eng("C06", 45, 900, "C01 scenarios with 8 ListUsers requests per run over every object, relation and filter (types and type#relation); oracle: every entry checks true individually in the reference, no duplicates, filter respected, complete for concrete users (explicitly or via wildcard) when untruncated.",
		"seeded exploration of ListUsers against per-entry reference checks and completeness", "§3 C06")
	eng("C07", 45, 900, "3 batches of 2-11 items per run drawn from the C01 request space with near-duplicates (same key, different context / contextual tuples / reordered contextual tuples), batch concurrency 1/2/25, query cache on/off, storage faults; every correlation id must get exactly one outcome equal to the standalone reference answer.",
		"seeded exploration of BatchCheck against per-item reference answers, including de-duplication collisions", "§3 C07")
	eng("C30", 30, 600, "C01 scenarios; Expand for 10 (object, relation) pairs per run with stored+contextual tuples and leftovers, storage faults; the rendered tree must equal the reference tree (node kinds/names from the rewrite, sorted de-duplicated valid users, tupleset and computed usersets).",
		"seeded exploration of Expand against a reference tree builder", "§3 C30")
	eng("C32", 45, 900, "C01 scenarios; each Check/ListObjects/ListUsers request is issued through AuthZEN Evaluation/ResourceSearch/SubjectSearch and natively on the same server and state; plus a batched Evaluations call with execute_all / deny_on_first_deny / permit_on_first_permit; decisions and sets must equal each other and the reference.",
		"seeded exploration of AuthZEN vs native API vs reference", "§3 C32")
}

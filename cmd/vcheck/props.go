package main

var realEngine = []string{"pkg/server (handlers as Go methods)", "pkg/server/commands/**", "internal/graph", "internal/check", "internal/planner (Server level)", "pkg/typesystem", "internal/validation", "internal/condition (real CEL)", "pkg/storage/storagewrappers/**", "pkg/storage/memory", "pkg/tuple", "theine (model/typesystem caches)"}
var stubEngine = []string{"SimDatastore wrapper (latency/faults) around the real memory backend", "SimPlanner where the planner interface is accepted (command level)", "gRPC/HTTP transport absent", "logger/tracer no-op"}

func init() {
	reg(&propInfo{ID: "C01", Harness: "hengine", Level: "exploration", QuickS: 45, ThoroughS: 900,
		Rule:   "seeded scenarios (stratified model over <=4 types, <=34 tuples incl. leftovers/wildcards/usersets/conditions, 12 Check requests of all three subject kinds with contexts and contextual tuples) executed in a synctest bubble against command-level (forced strategies) or Server-level Check, twin and storage-fault configurations; every answer judged by the Kleene least-fixpoint reference model. A run is non-trivial if tuples exist and at least one answer was judged; distinct = distinct event-log digest.",
		Real:   realEngine, Stub: stubEngine,
		Assume: []string{"reference model (sim/refmodel) is the specification", "memory backend only", "workers GOMAXPROCS=1"}})
}

// vcheck is the orchestrator: it instruments and builds the harness binaries from /repo's current
// working tree (through a generated -overlay; /repo is never written), fans seeded runs out over
// worker processes, confirms / minimises / replays violations, matches them against the committed
// known-findings file and writes the evidence file.
package main

import (
	"bufio"
	"bytes"
	"encoding/json"
	"flag"
	"fmt"
	"os"
	"os/exec"
	"path/filepath"
	"sort"
	"strconv"
	"strings"
	"sync"
	"syscall"
	"time"
)

const (
	verifDir = "/verif"
	goBin    = "go1.26.8"
)

// repoDir is /repo. VERIF_REPO_OVERRIDE points the build at another checkout of the repository; it
// exists for trying seeded defects in a scratch worktree without touching /repo while other checks
// run, and is never set by the commands registered in MANIFEST.json.
var repoDir = func() string {
	if d := os.Getenv("VERIF_REPO_OVERRIDE"); d != "" {
		return d
	}
	return "/repo"
}()

type propInfo struct {
	ID        string
	Harness   string
	Level     string
	QuickS    float64 // search budget (seconds) after build
	ThoroughS float64
	Rule      string
	Real      []string
	Stub      []string
	Assume    []string
	LevelText string
	LevelNote string
	Technique string
	DesignRef string
	// CrashIsViolation: the property is about the process surviving. A worker that dies (or is
	// killed by the stuck-run watchdog) inside a run is then replayed from the run's scenario in a fresh
	// process; if that process dies again the crash is reported as a violation with a replay file.
	CrashIsViolation bool
}

var props = map[string]*propInfo{}

func reg(p *propInfo) { props[p.ID] = p }

type outcome struct {
	Violation *struct {
		Class  string `json:"class"`
		Detail string `json:"detail"`
		Sig    string `json:"sig"`
	} `json:"violation,omitempty"`
	Skip       string           `json:"skip,omitempty"`
	Probes     map[string]int64 `json:"probes,omitempty"`
	Faults     map[string]int   `json:"faults,omitempty"`
	SimTimeNs  int64            `json:"sim_ns"`
	Events     int64            `json:"events"`
	Yields     int64            `json:"yields"`
	Digest     uint64           `json:"digest"`
	Shape      string           `json:"shape,omitempty"`
	SchedSig   uint64           `json:"sched_sig,omitempty"`
	Evals      int              `json:"evals"`
	NonTrivial bool             `json:"nontrivial"`
	Trace      []string         `json:"trace,omitempty"`
	Sample     json.RawMessage  `json:"sample,omitempty"`
	Infra      string           `json:"infra,omitempty"`
	Leak       string           `json:"leak,omitempty"`
	crashed    bool
}

type record struct {
	Kind     string          `json:"kind"`
	Run      int             `json:"run"`
	RunSeed  uint64          `json:"run_seed"`
	Outcome  *outcome        `json:"outcome,omitempty"`
	Scenario json.RawMessage `json:"scenario,omitempty"`
	WallMs   float64         `json:"wall_ms,omitempty"`
	Steps    int             `json:"steps,omitempty"`
}

type job struct {
	Mode      string          `json:"mode"`
	Property  string          `json:"property"`
	Seed      uint64          `json:"seed"`
	Start     int             `json:"start"`
	Count     int             `json:"count"`
	Stride    int             `json:"stride"`
	Tier      string          `json:"tier"`
	BudgetS   float64         `json:"budget_s"`
	Out       string          `json:"out"`
	Scenario  json.RawMessage `json:"scenario,omitempty"`
	Trace     bool            `json:"trace"`
	KeepGoing bool            `json:"keep_going"`
}

type finding struct {
	ID         string   `json:"id"`
	Properties []string `json:"properties"`
	Classes    []string `json:"classes"`
	SigAll     []string `json:"sig_contains_all"` // every substring must occur in the violation signature
	Text       string   `json:"text"`
	Status     string   `json:"status"` // known | fixed
	Commit     string   `json:"commit,omitempty"`
}

func die2(format string, a ...any) {
	fmt.Fprintf(os.Stderr, "vcheck: INFRASTRUCTURE: "+format+"\n", a...)
	os.Exit(2)
}

func goEnv() []string {
	env := os.Environ()
	// norandomizedheapbase64: Go 1.26 randomises the heap base per process; heap addresses decide the
	// iteration order of pointer-keyed maps, so with it two processes executing the same run diverge
	env = append(env, "GOFLAGS=-mod=mod", "GOPROXY=off", "GOSUMDB=off", "GOTOOLCHAIN=local", "GOEXPERIMENT=norandomizedheapbase64")
	return env
}

// ---------------------------------------------------------------- build

type builder struct {
	scratch string
}

func newBuilder() *builder {
	base := os.Getenv("TMPDIR")
	if base == "" {
		base = "/tmp"
	}
	d, err := os.MkdirTemp(base, "verif-")
	if err != nil {
		die2("scratch: %v", err)
	}
	return &builder{scratch: d}
}

func (b *builder) cleanup() { os.RemoveAll(b.scratch) }

// overlay writes overlay.json mapping /verif/sim/** into /repo/internal/verifsim/** plus the
// instrumented copies produced by simast (if the harness needs fine-grained mode).
func (b *builder) overlay(harness string) string {
	rep := map[string]string{}
	err := filepath.Walk(filepath.Join(verifDir, "sim"), func(p string, info os.FileInfo, err error) error {
		if err != nil {
			return err
		}
		if info.IsDir() || !strings.HasSuffix(p, ".go") {
			return nil
		}
		rel, _ := filepath.Rel(filepath.Join(verifDir, "sim"), p)
		rep[filepath.Join(repoDir, "internal/verifsim", rel)] = p
		return nil
	})
	if err != nil {
		die2("overlay walk: %v", err)
	}
	for k, v := range b.runtimeOverlay() {
		rep[k] = v
	}

	if needsInstrumentation(harness) {
		inst := filepath.Join(b.scratch, "inst")
		m, err := instrument(inst, harness)
		if err != nil {
			die2("instrumentation failed: %v", err)
		}
		for k, v := range m {
			rep[k] = v
		}
	}
	ov := filepath.Join(b.scratch, "overlay-"+harness+".json")
	data, _ := json.MarshalIndent(map[string]any{"Replace": rep}, "", " ")
	if err := os.WriteFile(ov, data, 0o644); err != nil {
		die2("overlay: %v", err)
	}
	return ov
}

// runtimeOverlay patches two files of the Go runtime (copies in the scratch directory; GOROOT is not
// touched): runtime.rand() — the source of map hash seeds, map iteration offsets, sync.Map seeds
// and math/rand auto-seeding — and select's poll order become a pure function of a seed while the
// simulator has switched them on (runtime.SimSetSeed). This removes the two sources of
// nondeterminism the Go runtime adds on purpose.
func (b *builder) runtimeOverlay() map[string]string {
	out, err := exec.Command(goBin, "env", "GOROOT").Output()
	if err != nil {
		die2("go env GOROOT: %v", err)
	}
	goroot := strings.TrimSpace(string(out))
	dir := filepath.Join(b.scratch, "rt")
	os.MkdirAll(dir, 0o755)
	patch := func(rel string, edits [][2]string, appendix string) (string, string) {
		src := filepath.Join(goroot, "src", rel)
		data, err := os.ReadFile(src)
		if err != nil {
			die2("runtime overlay: %v", err)
		}
		s := string(data)
		for _, e := range edits {
			if strings.Count(s, e[0]) != 1 {
				die2("runtime overlay: pattern %q not found exactly once in %s (toolchain changed?)", e[0], src)
			}
			s = strings.Replace(s, e[0], e[1], 1)
		}
		s += appendix
		dst := filepath.Join(dir, strings.ReplaceAll(rel, "/", "_"))
		if err := os.WriteFile(dst, []byte(s), 0o644); err != nil {
			die2("runtime overlay: %v", err)
		}
		return src, dst
	}
	m := map[string]string{}
	src, dst := patch("runtime/rand.go", [][2]string{{
		"func rand() uint64 {\n",
		"func rand() uint64 {\n\tif simRandOn {\n\t\treturn simRandNext()\n\t}\n",
	}}, `
var (
	simRandOn    bool
	simRandState uint64
)

// SimSetSeed exists only in the verification overlay: while on, rand() (map seeds and iteration
// offsets, sync.Map, math/rand auto-seeding) and select's poll order are a pure function of seed.
func SimSetSeed(seed uint64, on bool) { simRandState = seed; simSelState = seed ^ 0x5851f42d4c957f2d; simRandOn = on }

var simSelState uint64

// simSelNext is a SEQUENCE (select fairness is something programs rely on: a fixed poll order
// starves the later cases of a loop whose first case is a closed channel). The number of select
// statements executed up to any point is a function of the schedule, which the simulator decides.
//
//go:nosplit
func simSelNext() uint64 {
	simSelState += 0x9e3779b97f4a7c15
	z := simSelState
	z = (z ^ (z >> 30)) * 0xbf58476d1ce4e5b9
	z = (z ^ (z >> 27)) * 0x94d049bb133111eb
	return z ^ (z >> 31)
}

//go:nosplit
func simRandNext() uint64 {
	// deliberately NOT a sequence: a constant per run. A sequence would make every map's order depend
	// on how many maps were created before it, which sync.Pool reuse across runs of one worker
	// process changes. With a constant, a map's iteration order is a function of the run seed and of
	// the map's own history only, and every select of a run polls in the same seed-chosen permutation.
	z := simRandState + 0x9e3779b97f4a7c15
	z = (z ^ (z >> 30)) * 0xbf58476d1ce4e5b9
	z = (z ^ (z >> 27)) * 0x94d049bb133111eb
	return z ^ (z >> 31)
}
`)
	m[src] = dst
	src, dst = patch("runtime/select.go", [][2]string{{
		"\tgp := getg()\n\tif debugSelect {\n\t\tprint(\"select: cas0=\", cas0, \"\\n\")\n\t}\n",
		"\tgp := getg()\n\tif simRandOn && gp.bubble != nil {\n\t\tgp.simspin++\n\t\tif gp.simspin >= 256 {\n\t\t\tgp.simspin = 0\n\t\t\ttimeSleep(1000)\n\t\t}\n\t}\n\tif debugSelect {\n\t\tprint(\"select: cas0=\", cas0, \"\\n\")\n\t}\n",
	}, {
		"\tgp.parkingOnChan.Store(true)\n\tgopark(selparkcommit, nil, waitReason, traceBlockSelect, 1)\n",
		"\tgp.parkingOnChan.Store(true)\n\tgp.simspin = 0\n\tgopark(selparkcommit, nil, waitReason, traceBlockSelect, 1)\n",
	}, {
		"\t\tj := cheaprandn(uint32(norder + 1))\n",
		"\t\tvar j uint32\n\t\tif simRandOn {\n\t\t\tj = uint32((uint64(uint32(simSelNext())) * uint64(uint32(norder+1))) >> 32)\n\t\t} else {\n\t\t\tj = cheaprandn(uint32(norder + 1))\n\t\t}\n",
	}}, "")
	m[src] = dst
	// busy-wait loops (e.g. `for !done { select { case v, ok := <-closedChan: ... } }` in
	// recursiveFastPath / weight2) rely on preemption and on time passing. Without real preemption a
	// goroutine that completes 256 selects in a row without ever blocking takes a 1 µs virtual nap
	// (a durable block in the bubble, so the clock can move and its peers can run): a deterministic
	// stand-in for "the spinner eventually loses the CPU".
	// A goroutine blocked on sync.Mutex / RWMutex / Once is "not durably blocked" for synctest, because
	// the holder might live outside the bubble. In our bubbles every holder is inside, and several
	// code paths hold such a lock across (simulated) storage I/O (sharediterator's sync.Once around the
	// open call, cachedIterator.Next, combinedIterator): a contended lock would stop the fake clock
	// for ever (DESIGN §1.3, probe 5). Declaring these waits idle is the runtime-level equivalent of
	// swapping the primitives for channel-based twins.
	src, dst = patch("runtime/runtime2.go", [][2]string{{
		"\twaitReasonSyncCondWait:          true,\n\twaitReasonSynctestWaitGroupWait: true,\n",
		"\twaitReasonSyncCondWait:          true,\n\twaitReasonSyncMutexLock:         true,\n\twaitReasonSyncRWMutexRLock:      true,\n\twaitReasonSyncRWMutexLock:       true,\n\twaitReasonSynctestWaitGroupWait: true,\n",
	}, {
		"\tvalgrindStackID uintptr\n}\n",
		"\tvalgrindStackID uintptr\n\n\tsimspin uint32 // verification overlay: consecutive non-blocking selects\n}\n",
	}}, "")
	m[src] = dst
	// sysmon asks a goroutine that has been running for 10 ms of WALL time to yield at its next
	// function call; under load that reorders the run queue depending on real time. A simulated
	// quantum may take as long as it needs: only the simulator decides who runs next.
	src, dst = patch("runtime/proc.go", [][2]string{{
		"const forcePreemptNS = 10 * 1000 * 1000 // 10ms",
		"const forcePreemptNS = 3600 * 1000 * 1000 * 1000 // verification overlay: 1h (was 10ms)",
	}, {
		// goroutines outside the bubble (the scavenger, the sweeper, the test framework) become runnable
		// at moments decided by the REAL clock; if they take the runnext slot they push the simulated
		// goroutine that held it to the tail of the run queue and thereby reorder the simulation.
		"\tif randomizeScheduler && next && randn(2) == 0 {\n\t\tnext = false\n\t}\n",
		"\tif randomizeScheduler && next && randn(2) == 0 {\n\t\tnext = false\n\t}\n\tif simRandOn && gp.bubble == nil {\n\t\tnext = false // verification overlay\n\t}\n",
	}}, "")
	m[src] = dst
	// the per-process random keys of the string/memory hash functions decide the iteration order of
	// every map (together with the per-map seed, which the rand() patch already pins): with random
	// keys two processes executing the same run iterate `map[string]...` in different orders (e.g.
	// the order in which the pipeline starts its workers). Constant keys make map order a function
	// of the run seed alone.
	src, dst = patch("runtime/alg.go", [][2]string{{
		"\tfor i := range key {\n\t\tkey[i] = bootstrapRand()\n\t}",
		"\tfor i := range key {\n\t\tkey[i] = 0x9e3779b97f4a7c15 * uint64(i+1) // verification overlay: constant hash keys\n\t}",
	}, {
		"\tfor i := range hashkey {\n\t\thashkey[i] = uintptr(bootstrapRand())\n\t}",
		"\tfor i := range hashkey {\n\t\thashkey[i] = uintptr(0x9e3779b97f4a7c15 * uint64(i+1)) // verification overlay\n\t}",
	}}, "")
	m[src] = dst
	// sync.Mutex switches to starvation mode (FIFO hand-off instead of barging) when a waiter has
	// waited for more than 1 ms of REAL time (internal/sync.runtime_nanotime): under machine load the
	// hand-off order of a contended mutex then depends on the wall clock. While the simulator is on the
	// mutex sees a frozen clock, i.e. it never enters starvation mode.
	src, dst = patch("runtime/sema.go", [][2]string{{
		"func internal_sync_nanotime() int64 {\n\treturn nanotime()\n}",
		"func internal_sync_nanotime() int64 {\n\tif simRandOn {\n\t\treturn 1 // verification overlay\n\t}\n\treturn nanotime()\n}",
	}}, "")
	m[src] = dst
	// context: a cancelled parent cancels its children by ranging over map[canceler]struct{}, a
	// pointer-keyed map whose order depends on heap addresses, i.e. on the process. Sibling
	// sub-requests of one Check were therefore woken in a process-dependent order. Children get a
	// creation sequence number and are cancelled in that order.
	src, dst = patch("context/context.go", [][2]string{{
		"type canceler interface {\n\tcancel(removeFromParent bool, err, cause error)\n\tDone() <-chan struct{}\n}",
		"type canceler interface {\n\tcancel(removeFromParent bool, err, cause error)\n\tDone() <-chan struct{}\n\tsimOrder() uint64\n}\n\nvar simCtxSeq atomic.Uint64\n\nfunc (c *cancelCtx) simOrder() uint64 { return c.simSeq }",
	}, {
		"\tcause    error                 // set to non-nil by the first cancel call\n}",
		"\tcause    error                 // set to non-nil by the first cancel call\n\tsimSeq   uint64                // verification overlay: creation order\n}",
	}, {
		"func (c *cancelCtx) propagateCancel(parent Context, child canceler) {\n\tc.Context = parent\n",
		"func (c *cancelCtx) propagateCancel(parent Context, child canceler) {\n\tc.Context = parent\n\tc.simSeq = simCtxSeq.Add(1)\n",
	}, {
		"\tfor child := range c.children {\n\t\t// NOTE: acquiring the child's lock while holding parent's lock.\n\t\tchild.cancel(false, err, cause)\n\t}",
		"\tsimKids := make([]canceler, 0, len(c.children))\n\tfor child := range c.children {\n\t\tsimKids = append(simKids, child)\n\t}\n\tfor i := 1; i < len(simKids); i++ {\n\t\tfor j := i; j > 0 && simKids[j].simOrder() < simKids[j-1].simOrder(); j-- {\n\t\t\tsimKids[j], simKids[j-1] = simKids[j-1], simKids[j]\n\t\t}\n\t}\n\tfor _, child := range simKids {\n\t\t// NOTE: acquiring the child's lock while holding parent's lock.\n\t\tchild.cancel(false, err, cause)\n\t}",
	}}, "")
	m[src] = dst
	return m
}

// ulidModfile patches github.com/oklog/ulid/v2 through a scratch copy of the module and a scratch
// go.mod (-modfile) that replaces the module with the copy (files in the module cache cannot be
// overlaid). Why: the module's default entropy source is seeded from the REAL clock when the package is
// initialised and is shared by the whole process, so the ULIDs made inside a run (store/model ids
// minted by the server, the unique labels of the weighted graph's operator nodes, which in turn decide
// the iteration order of the pipeline's worker map) depended on the process and on every earlier run
// of the same worker. SimReseed lets the simulator restart the source from the run seed. /repo's own
// go.mod is not touched.
func (b *builder) ulidModfile() string {
	cmd := exec.Command(goBin, "list", "-m", "-f", "{{.Dir}}", "github.com/oklog/ulid/v2")
	cmd.Dir = repoDir
	cmd.Env = goEnv()
	out, err := cmd.Output()
	if err != nil {
		die2("ulid patch: go list: %v", err)
	}
	srcDir := strings.TrimSpace(string(out))
	dstDir := filepath.Join(b.scratch, "ulid")
	os.MkdirAll(dstDir, 0o755)
	ents, err := os.ReadDir(srcDir)
	if err != nil {
		die2("ulid patch: %v", err)
	}
	for _, e := range ents {
		if e.IsDir() || (!strings.HasSuffix(e.Name(), ".go") && e.Name() != "go.mod") || strings.HasSuffix(e.Name(), "_test.go") {
			continue
		}
		data, err := os.ReadFile(filepath.Join(srcDir, e.Name()))
		if err != nil {
			die2("ulid patch: %v", err)
		}
		if e.Name() == "ulid.go" {
			s := string(data)
			const pat = "rng := rand.New(rand.NewSource(time.Now().UnixNano()))"
			if strings.Count(s, pat) != 1 {
				die2("ulid patch: pattern not found in %s (module changed?)", srcDir)
			}
			s = strings.Replace(s, pat, "rng := rand.New(rand.NewSource(1)) // verification build (was the wall clock)", 1)
			s += `

// SimReseed exists only in the verification build: restart the default entropy source from seed.
func SimReseed(seed int64) {
	l := defaultEntropy.(*LockedMonotonicReader)
	l.mu.Lock()
	l.MonotonicReader = Monotonic(rand.New(rand.NewSource(seed)), 0)
	l.mu.Unlock()
}
`
			data = []byte(s)
		}
		if err := os.WriteFile(filepath.Join(dstDir, e.Name()), data, 0o644); err != nil {
			die2("ulid patch: %v", err)
		}
	}
	gomod, err := os.ReadFile(filepath.Join(repoDir, "go.mod"))
	if err != nil {
		die2("ulid patch: %v", err)
	}
	mf := filepath.Join(b.scratch, "go.verif.mod")
	if err := os.WriteFile(mf, append(gomod, []byte("\nreplace github.com/oklog/ulid/v2 => "+dstDir+"\n")...), 0o644); err != nil {
		die2("ulid patch: %v", err)
	}
	if sum, err := os.ReadFile(filepath.Join(repoDir, "go.sum")); err == nil {
		os.WriteFile(filepath.Join(b.scratch, "go.verif.sum"), sum, 0o644)
	}
	return mf
}

func (b *builder) build(harness string) string {
	ov := b.overlay(harness)
	bin := filepath.Join(b.scratch, harness+".test")
	cmd := exec.Command(goBin, "test", "-c", "-vet=off", "-modfile", b.ulidModfile(), "-overlay", ov, "-o", bin, "./internal/verifsim/"+pkgOf(harness))
	cmd.Dir = repoDir
	cmd.Env = goEnv()
	var out bytes.Buffer
	cmd.Stdout, cmd.Stderr = &out, &out
	t0 := time.Now()
	if err := cmd.Run(); err != nil {
		die2("build of %s failed: %v\n%s", harness, err, out.String())
	}
	fmt.Fprintf(os.Stderr, "vcheck: built %s in %.1fs\n", harness, time.Since(t0).Seconds())
	return bin
}

// ---------------------------------------------------------------- workers

type workerResult struct {
	records  []record
	exitCode int
	stderr   string
	done     bool
	lastBegin *record
}

func runWorker(bin string, j job, scratch string, tag string, wallCap time.Duration) workerResult {
	j.Out = filepath.Join(scratch, "out-"+tag+".jsonl")
	jp := filepath.Join(scratch, "job-"+tag+".json")
	data, _ := json.Marshal(j)
	os.WriteFile(jp, data, 0o644)
	cmd := exec.Command(bin, "-test.run", "^TestWorker$", "-test.count=1", "-test.timeout=0")
	cmd.Env = append(os.Environ(), "VSIM_JOB="+jp, "GOMAXPROCS=1", "GODEBUG=asyncpreemptoff=1,randautoseed=0")
	var errb bytes.Buffer
	cmd.Stdout, cmd.Stderr = &errb, &errb
	res := workerResult{}
	if err := cmd.Start(); err != nil {
		res.exitCode = -1
		res.stderr = err.Error()
		return res
	}
	doneCh := make(chan error, 1)
	go func() { doneCh <- cmd.Wait() }()
	deadline := time.Now().Add(wallCap)
	lastSize, lastChange := int64(-1), time.Now()
	cpuAtChange := 0.0
	var cpuHist []float64
	tick := time.NewTicker(time.Second)
	defer tick.Stop()
wait:
	for {
		select {
		case err := <-doneCh:
			if err != nil {
				if ee, ok := err.(*exec.ExitError); ok {
					res.exitCode = ee.ExitCode()
				} else {
					res.exitCode = -1
				}
			}
			break wait
		case <-tick.C:
			// watchdog: the worker appends a record per run. A run is stuck when the file has not grown for
			// 45 s of wall time AND the worker either burnt 30 s of CPU since (spinning, or a run far beyond
			// any sensible size) or used next to none in the last 20 s (blocked for good). Judging by CPU time
			// keeps a loaded machine (other checks, other builds) from turning slow runs into "stuck" ones;
			// 300 s without growth is stuck whatever the load.
			cpuNow := procCPU(cmd.Process.Pid)
			cpuHist = append(cpuHist, cpuNow)
			if st, err := os.Stat(j.Out); err == nil && st.Size() != lastSize {
				lastSize, lastChange, cpuAtChange = st.Size(), time.Now(), cpuNow
			}
			quiet := time.Since(lastChange)
			stuck := quiet > 300*time.Second
			if !stuck && quiet > 45*time.Second && cpuNow >= 0 {
				recent := cpuNow - cpuHist[max(0, len(cpuHist)-21)]
				stuck = cpuNow-cpuAtChange >= 30 || recent < 0.2
			} else if cpuNow < 0 {
				stuck = quiet > 45*time.Second
			}
			if stuck || time.Now().After(deadline) {
				cmd.Process.Signal(syscall.SIGQUIT) // the Go runtime dumps all stacks
				select {
				case <-doneCh:
				case <-time.After(5 * time.Second):
					cmd.Process.Kill()
					<-doneCh
				}
				res.exitCode = 124
				if stuck {
					res.exitCode = 3
				}
				break wait
			}
		}
	}
	res.stderr = errb.String()
	f, err := os.Open(j.Out)
	if err == nil {
		defer f.Close()
		sc := bufio.NewScanner(f)
		sc.Buffer(make([]byte, 1<<20), 1<<28)
		for sc.Scan() {
			var r record
			if json.Unmarshal(sc.Bytes(), &r) != nil {
				continue
			}
			switch r.Kind {
			case "done":
				res.done = true
			case "begin":
				rr := r
				res.lastBegin = &rr
			case "end", "min":
				res.lastBegin = nil
				res.records = append(res.records, r)
			}
		}
	}
	return res
}

// procCPU returns the CPU seconds (user+system) a process has used, or -1.
func procCPU(pid int) float64 {
	data, err := os.ReadFile(fmt.Sprintf("/proc/%d/stat", pid))
	if err != nil {
		return -1
	}
	s := string(data)
	i := strings.LastIndex(s, ")") // the command name may hold spaces
	if i < 0 {
		return -1
	}
	f := strings.Fields(s[i+1:])
	if len(f) < 13 {
		return -1
	}
	ut, err1 := strconv.ParseFloat(f[11], 64)
	st, err2 := strconv.ParseFloat(f[12], 64)
	if err1 != nil || err2 != nil {
		return -1
	}
	return (ut + st) / 100
}

// ---------------------------------------------------------------- evidence

type agg struct {
	runs, skipped, nontrivial int
	evals                     int
	simNs                     int64
	events, yields            int64
	probes                    map[string]int64
	faults                    map[string]int
	shapes                    map[string]int
	digests                   map[uint64]struct{}
	skips                     map[string]int
	samples                   []any
	wallMs                    float64
	corpus                    int
}

func newAgg() *agg {
	return &agg{probes: map[string]int64{}, faults: map[string]int{}, shapes: map[string]int{}, digests: map[uint64]struct{}{}, skips: map[string]int{}}
}

func (a *agg) add(r record) {
	o := r.Outcome
	if o == nil {
		return
	}
	a.runs++
	a.wallMs += r.WallMs
	if o.Skip != "" {
		a.skipped++
		a.skips[o.Skip]++
		return
	}
	a.evals += o.Evals
	a.simNs += o.SimTimeNs
	a.events += o.Events
	a.yields += o.Yields
	for k, v := range o.Probes {
		a.probes[k] += v
	}
	for k, v := range o.Faults {
		a.faults[k] += v
	}
	if o.NonTrivial {
		if _, seen := a.digests[o.Digest]; !seen {
			a.nontrivial++
		}
		a.shapes[o.Shape]++
	}
	a.digests[o.Digest] = struct{}{}
	if len(a.samples) < 3 && o.NonTrivial {
		s := map[string]any{"run": r.Run, "run_seed": r.RunSeed, "shape": o.Shape, "events": o.Events, "sim_ns": o.SimTimeNs}
		if len(o.Sample) > 0 {
			s["case"] = o.Sample
		}
		if len(o.Trace) > 0 {
			n := len(o.Trace)
			if n > 12 {
				n = 12
			}
			s["event_log_excerpt"] = o.Trace[:n]
		}
		a.samples = append(a.samples, s)
	}
}

func writeEvidence(p *propInfo, tier string, seed uint64, a *agg, wall float64, violations, known int, extra map[string]any) {
	cov := map[string]any{
		"evaluations":         a.runs,
		"distinct_nontrivial": a.nontrivial,
		"rule":                p.Rule,
		"samples":             a.samples,
		"oracle_evaluations":  a.evals,
		"runs_skipped":        a.skips,
		"simulated_time_s":    float64(a.simNs) / 1e9,
		"events":              a.events,
		"yields":              a.yields,
		"runs_per_hour":       int(float64(a.runs) / wall * 3600),
		"faults_fired":        a.faults,
		"probes":              a.probes,
		"distinct_event_log_digests": len(a.digests),
		"distinct_scenario_shapes":   len(a.shapes),
		"known_findings_reported":    known,
		"real_components":            p.Real,
		"stub_components":            p.Stub,
	}
	for k, v := range extra {
		cov[k] = v
	}
	if len(a.samples) == 0 {
		cov["samples"] = []any{"no non-trivial run completed"}
	}
	ev := map[string]any{
		"property_id": p.ID,
		"tier":        tier,
		"seed":        seed,
		"level":       p.Level,
		"coverage":    cov,
		"assumptions": p.Assume,
		"wall_s":      wall,
		"violations":  violations,
	}
	data, _ := json.MarshalIndent(ev, "", " ")
	os.MkdirAll(filepath.Join(verifDir, "evidence"), 0o755)
	if err := os.WriteFile(filepath.Join(verifDir, "evidence", p.ID+".json"), data, 0o644); err != nil {
		die2("evidence: %v", err)
	}
}

// ---------------------------------------------------------------- findings

func loadFindings() []finding {
	var fs []finding
	b, err := os.ReadFile(filepath.Join(verifDir, "known_findings.json"))
	if err != nil {
		return nil
	}
	if err := json.Unmarshal(b, &fs); err != nil {
		die2("known_findings.json: %v", err)
	}
	return fs
}

func matchFinding(fs []finding, prop, class, sig string) *finding {
	for i := range fs {
		f := &fs[i]
		if f.Status != "known" {
			continue
		}
		ok := false
		for _, p := range f.Properties {
			if p == prop {
				ok = true
			}
		}
		if !ok {
			continue
		}
		ok = false
		for _, c := range f.Classes {
			if c == class {
				ok = true
			}
		}
		if !ok || len(f.SigAll) == 0 {
			continue
		}
		for _, sub := range f.SigAll {
			if !strings.Contains(sig, sub) {
				ok = false
			}
		}
		// a wrong answer that turned right when the same request was re-issued with fault injection
		// switched off was caused by the injected fault, not by a recorded fault-free defect: only a
		// finding that names this marker itself may claim it
		if ok && strings.Contains(sig, faultChangedAnswer) {
			ok = false
			for _, sub := range f.SigAll {
				if strings.Contains(sub, faultChangedAnswer) {
					ok = true
				}
			}
		}
		if ok {
			return f
		}
	}
	return nil
}

const faultChangedAnswer = "fault_changed_answer"

// ---------------------------------------------------------------- main flow

func cmdRun(args []string) {
	fs := flag.NewFlagSet("run", flag.ExitOnError)
	propID := fs.String("property", "", "property id")
	tier := fs.String("tier", "", "quick|thorough")
	workers := fs.Int("workers", 16, "worker processes")
	budget := fs.Float64("budget", 0, "override search budget (s)")
	maxRuns := fs.Int("runs", 0, "cap on runs per worker (0 = budget only)")
	scan := fs.Bool("scan", false, "triage mode: keep going after violations, print a class/sig table, no minimisation, no evidence")
	fs.Parse(args)
	p := props[*propID]
	if p == nil {
		die2("unknown property %q", *propID)
	}
	if *tier == "" {
		*tier = os.Getenv("VERIF_TIER")
	}
	if *tier == "" {
		*tier = "quick"
	}
	seed := uint64(1)
	if s := os.Getenv("VERIF_SEED"); s != "" {
		v, err := strconv.ParseUint(s, 10, 64)
		if err != nil {
			iv, err2 := strconv.ParseInt(s, 10, 64)
			if err2 != nil {
				die2("VERIF_SEED: %v", err)
			}
			v = uint64(iv)
		}
		seed = v
	}
	fmt.Printf("vcheck: property=%s tier=%s VERIF_SEED=%d\n", p.ID, *tier, seed)
	t0 := time.Now()
	b := newBuilder()
	defer b.cleanup()
	bin := b.build(p.Harness)
	bs := p.QuickS
	if *tier == "thorough" {
		bs = p.ThoroughS
	}
	if *budget > 0 {
		bs = *budget
	}
	count := 1 << 30
	if *maxRuns > 0 {
		count = *maxRuns
	}
	var wg sync.WaitGroup
	results := make([]workerResult, *workers)
	for w := 0; w < *workers; w++ {
		wg.Add(1)
		go func(w int) {
			defer wg.Done()
			j := job{Mode: "run", Property: p.ID, Seed: seed, Start: w, Stride: *workers, Count: count, Tier: *tier, BudgetS: bs, KeepGoing: true}
			results[w] = runWorker(bin, j, b.scratch, fmt.Sprintf("w%d", w), time.Duration(bs+90)*time.Second)
		}(w)
	}
	wg.Wait()
	a := newAgg()
	type viol struct {
		rec record
	}
	var viols []viol
	var infra, stallNotes []string
	for w, r := range results {
		for _, rec := range r.records {
			a.add(rec)
			if rec.Outcome != nil && rec.Outcome.Infra != "" {
				infra = append(infra, fmt.Sprintf("worker %d run %d (run_seed %d): %s", w, rec.Run, rec.RunSeed, rec.Outcome.Infra))
			}
			if rec.Outcome != nil && rec.Outcome.Violation != nil {
				viols = append(viols, viol{rec})
			}
		}
		if !r.done {
			where := ""
			if r.lastBegin != nil {
				where = fmt.Sprintf(" during run %d (run_seed %d)", r.lastBegin.Run, r.lastBegin.RunSeed)
			}
			tail := r.stderr
			if len(tail) > 6000 {
				tail = tail[:3000] + "\n...\n" + tail[len(tail)-3000:]
			}
			if r.lastBegin != nil {
				// reproduce or ignore, for dead and stuck workers too: the scenario of the interrupted run is
				// regenerated and replayed in a fresh process. If that process dies or stalls as well, the
				// death is a function of the scenario (a violation for the properties about survival,
				// otherwise a problem of the machinery); if it completes, the first death was not (a loaded
				// machine, a wedge that depends on something outside the seed) and the only loss is the rest of
				// that worker's share of the runs.
				v, survived := crashViolation(b, bin, p, seed, *tier, r)
				if survived != nil {
					a.add(*survived)
					if survived.Outcome != nil && survived.Outcome.Violation != nil {
						viols = append(viols, viol{*survived})
					}
					stallNotes = append(stallNotes, fmt.Sprintf("worker %d exited with code %d%s; the run completed when replayed in a fresh process", w, r.exitCode, where))
					continue
				}
				if v != nil && p.CrashIsViolation {
					viols = append(viols, viol{*v})
					continue
				}
			}
			infra = append(infra, fmt.Sprintf("worker %d exited with code %d%s:\n%s", w, r.exitCode, where, tail))
		}
	}
	// directed corpus: minimised scenarios of earlier findings (and hand-written edge cases) are
	// replayed on every check, so that a listed finding is demonstrated deterministically and a
	// repaired one is seen to stay repaired
	corpus, _ := filepath.Glob(filepath.Join(verifDir, "corpus", p.ID, "*.json"))
	sort.Strings(corpus)
	for i, cf := range corpus {
		data, err := os.ReadFile(cf)
		if err != nil {
			continue
		}
		var file struct {
			Scenario json.RawMessage `json:"scenario"`
		}
		if json.Unmarshal(data, &file) != nil || len(file.Scenario) == 0 {
			infra = append(infra, "corpus file "+cf+" is not a replay file")
			continue
		}
		rr := runWorker(bin, job{Mode: "replay", Property: p.ID, Scenario: file.Scenario}, b.scratch, fmt.Sprintf("corpus%d", i), 120*time.Second)
		if len(rr.records) == 0 || rr.records[0].Outcome == nil {
			infra = append(infra, fmt.Sprintf("corpus replay %s produced no record (exit %d): %s", cf, rr.exitCode, tailStr(rr.stderr)))
			continue
		}
		rec := rr.records[0]
		rec.Run = -len(corpus) + i
		rec.Scenario = file.Scenario
		a.add(rec)
		a.corpus++
		if rec.Outcome.Violation != nil {
			viols = append(viols, viol{rec})
		}
	}
	known := loadFindings()
	if *scan {
		type ex struct {
			n      int
			detail string
			seed   uint64
		}
		tab := map[string]*ex{}
		for _, v := range viols {
			k := v.rec.Outcome.Violation.Class + " | " + v.rec.Outcome.Violation.Sig
			if matchFinding(known, p.ID, v.rec.Outcome.Violation.Class, v.rec.Outcome.Violation.Sig) != nil {
				k = "[known] " + k
			}
			if tab[k] == nil {
				tab[k] = &ex{detail: v.rec.Outcome.Violation.Detail, seed: v.rec.RunSeed}
				os.MkdirAll(filepath.Join(verifDir, "replays", "scan"), 0o755)
				file := map[string]any{"property": p.ID, "violation": v.rec.Outcome.Violation, "scenario": v.rec.Scenario}
				data, _ := json.MarshalIndent(file, "", " ")
				os.WriteFile(filepath.Join(verifDir, "replays", "scan", fmt.Sprintf("%s-%d.json", p.ID, v.rec.RunSeed)), data, 0o644)
			}
			tab[k].n++
		}
		ks := make([]string, 0, len(tab))
		for k := range tab {
			ks = append(ks, k)
		}
		sort.Strings(ks)
		for _, k := range ks {
			d := tab[k].detail
			if len(d) > 500 {
				d = d[:500]
			}
			fmt.Printf("%5d  %s\n        seed=%d %s\n", tab[k].n, k, tab[k].seed, d)
		}
		leaks := map[string]int{}
		for _, r := range results {
			for _, rec := range r.records {
				if rec.Outcome != nil && rec.Outcome.Leak != "" {
					leaks[rec.Outcome.Leak]++
				}
			}
		}
		for l, n := range leaks {
			fmt.Printf("LEAK x%d:\n%s\n", n, l)
		}
		for _, s := range infra {
			if len(s) > 1500 {
				s = s[:1500]
			}
			fmt.Printf("INFRA: %s\n", s)
		}
		fmt.Printf("scan: %s runs=%d skipped=%d nontrivial=%d evals=%d probes=%v faults=%v\n", p.ID, a.runs, a.skipped, a.nontrivial, a.evals, a.probes, a.faults)
		return
	}
	nKnown, nViol := 0, 0
	reported := map[string]bool{}
	knownSeen := map[string]bool{}
	var unrepro []string
	for _, n := range stallNotes {
		unrepro = append(unrepro, n)
		fmt.Fprintf(os.Stderr, "vcheck: UNREPRODUCED (not reported): %s\n", n)
	}
	sort.Slice(viols, func(i, j int) bool { return viols[i].rec.Run < viols[j].rec.Run })
	for _, v := range viols {
		key := v.rec.Outcome.Violation.Class + "|" + v.rec.Outcome.Violation.Sig
		if reported[key] || len(reported) >= 8 {
			continue
		}
		if f := matchFinding(known, p.ID, v.rec.Outcome.Violation.Class, v.rec.Outcome.Violation.Sig); f != nil && knownSeen[f.Text] {
			continue // same listed finding already confirmed, minimised and reported in this run
		}
		reported[key] = true
		res := confirmAndMinimise(b, bin, p, v.rec)
		if res.infra != "" {
			infra = append(infra, res.infra)
			continue
		}
		if res.unreproduced != "" {
			unrepro = append(unrepro, res.unreproduced)
			fmt.Fprintf(os.Stderr, "vcheck: UNREPRODUCED (not reported): %s\n", res.unreproduced)
			continue
		}
		if f := matchFinding(known, p.ID, res.class, res.sig); f != nil {
			if knownSeen[f.Text] {
				continue
			}
			knownSeen[f.Text] = true
			nKnown++
			fmt.Printf("KNOWN-FINDING: property=%s %s: %s (class=%s sig=%q replay=%s)\n", p.ID, f.ID, f.Text, res.class, res.sig, res.path)
			continue
		}
		nViol++
		fmt.Printf("VIOLATION property=%s replay=%s\n", p.ID, res.path)
		fmt.Printf("  class=%s sig=%q\n  %s\n", res.class, res.sig, res.detail)
	}
	wall := time.Since(t0).Seconds()
	writeEvidence(p, *tier, seed, a, wall, nViol, nKnown, map[string]any{"workers": *workers, "search_budget_s": bs, "directed_corpus_scenarios_replayed": a.corpus, "infrastructure_problems": len(infra), "unreproduced_violations_not_reported": unrepro})
	fmt.Printf("vcheck: %s runs=%d skipped=%d nontrivial=%d evals=%d sim_time=%.3fs wall=%.1fs violations=%d known=%d\n",
		p.ID, a.runs, a.skipped, a.nontrivial, a.evals, float64(a.simNs)/1e9, wall, nViol, nKnown)
	if nViol > 0 {
		os.Exit(1)
	}
	if len(infra) > 0 {
		for _, s := range infra {
			fmt.Fprintf(os.Stderr, "vcheck: INFRASTRUCTURE: %s\n", s)
		}
		os.Exit(2)
	}
}

// crashSig summarises why a process died: the first "panic:" / "fatal error:" line and the first
// frames that belong to the code under test.
func crashSig(stderr string, exitCode int) (string, string) {
	kind := "process_crash"
	if exitCode == 3 {
		kind = "process_stuck"
	}
	var head string
	var frames []string
	for _, l := range strings.Split(stderr, "\n") {
		t := strings.TrimSpace(l)
		if head == "" && (strings.HasPrefix(t, "panic:") || strings.HasPrefix(t, "fatal error:") || strings.Contains(t, "goroutine stack exceeds")) {
			head = t
			if len(head) > 120 {
				head = head[:120]
			}
		}
		if strings.HasPrefix(t, "github.com/openfga/openfga/") && !strings.Contains(t, "verifsim") && len(frames) < 3 {
			f := strings.TrimPrefix(t, "github.com/openfga/openfga/")
			if i := strings.LastIndex(f, "("); i > 0 && strings.HasSuffix(f, ")") {
				f = f[:i] // drop the argument list
			}
			if len(frames) == 0 || frames[len(frames)-1] != f {
				frames = append(frames, f)
			}
		}
	}
	return kind, head + " in " + strings.Join(frames, " <- ")
}

// crashViolation regenerates the scenario of the run a worker died in, replays it in a fresh process and,
// if that process dies as well, returns a synthetic violation record (nil: not reproducible -> infra).
func crashViolation(b *builder, bin string, p *propInfo, seed uint64, tier string, r workerResult) (died *record, survived *record) {
	g := runWorker(bin, job{Mode: "gen", Property: p.ID, Seed: seed, Start: r.lastBegin.Run, Tier: tier}, b.scratch, fmt.Sprintf("gen%d", r.lastBegin.Run), 60*time.Second)
	if len(g.records) == 0 || len(g.records[0].Scenario) == 0 {
		return nil, nil
	}
	scen := g.records[0].Scenario
	rr := runWorker(bin, job{Mode: "replay", Property: p.ID, Scenario: scen}, b.scratch, fmt.Sprintf("crash%d", r.lastBegin.Run), 120*time.Second)
	if len(rr.records) > 0 && rr.records[0].Outcome != nil {
		// survived the replay: the death is not a function of the scenario
		rec := rr.records[0]
		rec.Run, rec.RunSeed, rec.Scenario = r.lastBegin.Run, r.lastBegin.RunSeed, scen
		return nil, &rec
	}
	kind, sig := crashSig(rr.stderr, rr.exitCode)
	rec := record{Kind: "end", Run: r.lastBegin.Run, RunSeed: r.lastBegin.RunSeed, Scenario: scen, Outcome: &outcome{}}
	rec.Outcome.Violation = &struct {
		Class  string `json:"class"`
		Detail string `json:"detail"`
		Sig    string `json:"sig"`
	}{Class: kind, Sig: sig, Detail: "the worker process died while executing this scenario, and died again when the scenario was replayed in a fresh process:\n" + tailStr(rr.stderr)}
	rec.Outcome.crashed = true
	return &rec, nil
}

type minResult struct {
	path, class, sig, detail, infra, unreproduced string
}

func confirmAndMinimise(b *builder, bin string, p *propInfo, rec record) minResult {
	if rec.Outcome.crashed {
		// a crash was already reproduced in a fresh process by crashViolation; the worker cannot
		// minimise a scenario that kills it, so the replay file holds the scenario as generated
		path := filepath.Join(verifDir, "replays", fmt.Sprintf("%s-%d.json", p.ID, rec.RunSeed))
		os.MkdirAll(filepath.Dir(path), 0o755)
		var pretty bytes.Buffer
		json.Indent(&pretty, rec.Scenario, "", " ")
		file := map[string]any{"property": p.ID, "violation": rec.Outcome.Violation, "scenario": json.RawMessage(pretty.Bytes()), "note": "the process dies on this scenario; not minimised"}
		data, _ := json.MarshalIndent(file, "", " ")
		os.WriteFile(path, data, 0o644)
		return minResult{path: path, class: rec.Outcome.Violation.Class, sig: rec.Outcome.Violation.Sig, detail: rec.Outcome.Violation.Detail}
	}
	class := rec.Outcome.Violation.Class
	tag := fmt.Sprintf("v%d", rec.RunSeed)
	// replayOK runs the scenario in a fresh process and reports whether the same violation class shows.
	replayOK := func(scen json.RawMessage, t string) (*outcome, string) {
		rr := runWorker(bin, job{Mode: "replay", Property: p.ID, Scenario: scen}, b.scratch, t, 120*time.Second)
		if len(rr.records) == 0 || rr.records[0].Outcome == nil {
			return nil, fmt.Sprintf("replay of run_seed %d produced no record (exit %d): %s", rec.RunSeed, rr.exitCode, tailStr(rr.stderr))
		}
		o := rr.records[0].Outcome
		if o.Violation == nil || o.Violation.Class != class {
			return nil, ""
		}
		return o, ""
	}
	// 1. confirm in a fresh process
	if o, infra := replayOK(rec.Scenario, tag+"-c"); o == nil {
		if infra != "" {
			return minResult{infra: infra}
		}
		// not reproducible from its own scenario: a residual scheduling nondeterminism (see DESIGN
		// §2.10). It is recorded, never reported as a violation and never turned into an alarm.
		raw := filepath.Join(verifDir, "replays", fmt.Sprintf("%s-%d-unreproduced.json", p.ID, rec.RunSeed))
		os.MkdirAll(filepath.Dir(raw), 0o755)
		os.WriteFile(raw, rec.Scenario, 0o644)
		return minResult{unreproduced: fmt.Sprintf("violation %s (sig %q) of run_seed %d did not reproduce from its own scenario (saved %s)", class, rec.Outcome.Violation.Sig, rec.RunSeed, raw)}
	}
	// 2. minimise
	scen := rec.Scenario
	rm := runWorker(bin, job{Mode: "minimise", Property: p.ID, Scenario: rec.Scenario, BudgetS: 60}, b.scratch, tag+"-m", 150*time.Second)
	if len(rm.records) > 0 && rm.records[0].Outcome != nil && rm.records[0].Outcome.Violation != nil && rm.records[0].Outcome.Violation.Class == class {
		scen = rm.records[0].Scenario
	}
	// 3. replay the (minimised) file three times in fresh processes: the violation must show every
	// time; the event-log digest should be identical too (recorded when it is not)
	var digest uint64
	var last *outcome
	digestStable := true
	try := func(scen json.RawMessage) bool {
		digest, last, digestStable = 0, nil, true
		for i := 0; i < 3; i++ {
			o, _ := replayOK(scen, fmt.Sprintf("%s-r%d", tag, i))
			if o == nil {
				return false
			}
			if i > 0 && o.Digest != digest {
				digestStable = false
			}
			digest, last = o.Digest, o
		}
		return true
	}
	if !try(scen) {
		if bytes.Equal(scen, rec.Scenario) || !try(rec.Scenario) {
			return minResult{unreproduced: fmt.Sprintf("violation %s (sig %q) of run_seed %d reproduced once but not in three consecutive replays", class, rec.Outcome.Violation.Sig, rec.RunSeed)}
		}
		scen = rec.Scenario
	}
	path := filepath.Join(verifDir, "replays", fmt.Sprintf("%s-%d.json", p.ID, rec.RunSeed))
	os.MkdirAll(filepath.Dir(path), 0o755)
	var pretty bytes.Buffer
	json.Indent(&pretty, scen, "", " ")
	file := map[string]any{"property": p.ID, "violation": last.Violation, "event_log_digest": digest, "event_log_digest_stable_over_3_replays": digestStable, "scenario": json.RawMessage(pretty.Bytes()), "trace": last.Trace}
	data, _ := json.MarshalIndent(file, "", " ")
	os.WriteFile(path, data, 0o644)
	return minResult{path: path, class: class, sig: last.Violation.Sig, detail: last.Violation.Detail}
}

func tailStr(s string) string {
	if len(s) > 2000 {
		return s[len(s)-2000:]
	}
	return s
}

func cmdReplay(args []string) {
	if len(args) < 1 {
		die2("usage: vcheck replay <file>")
	}
	data, err := os.ReadFile(args[0])
	if err != nil {
		die2("%v", err)
	}
	var file struct {
		Property  string          `json:"property"`
		Scenario  json.RawMessage `json:"scenario"`
		Digest    uint64          `json:"event_log_digest"`
		Violation *struct {
			Class string `json:"class"`
		} `json:"violation"`
	}
	if err := json.Unmarshal(data, &file); err != nil {
		die2("%v", err)
	}
	p := props[file.Property]
	if p == nil {
		die2("unknown property %q in replay file", file.Property)
	}
	b := newBuilder()
	defer b.cleanup()
	bin := b.build(p.Harness)
	rr := runWorker(bin, job{Mode: "replay", Property: p.ID, Scenario: file.Scenario}, b.scratch, "replay", 120*time.Second)
	if len(rr.records) == 0 || rr.records[0].Outcome == nil {
		if p.CrashIsViolation {
			kind, sig := crashSig(rr.stderr, rr.exitCode)
			fmt.Printf("VIOLATION property=%s replay=%s\n  class=%s sig=%q\n  the process died while executing the scenario:\n%s\n", p.ID, args[0], kind, sig, tailStr(rr.stderr))
			os.Exit(1)
		}
		die2("no record (exit %d): %s", rr.exitCode, tailStr(rr.stderr))
	}
	o := rr.records[0].Outcome
	if o.Infra != "" {
		die2("%s", o.Infra)
	}
	for _, l := range o.Trace {
		fmt.Println("  ", l)
	}
	if o.Violation == nil {
		fmt.Printf("replay: no violation (digest %d)\n", o.Digest)
		return
	}
	fmt.Printf("VIOLATION property=%s replay=%s\n  class=%s sig=%q\n  %s\n  digest=%d (recorded %d)\n", p.ID, args[0], o.Violation.Class, o.Violation.Sig, o.Violation.Detail, o.Digest, file.Digest)
	os.Exit(1)
}

func main() {
	if len(os.Args) < 2 {
		fmt.Fprintln(os.Stderr, "usage: vcheck run|replay|selftest|build ...")
		os.Exit(2)
	}
	switch os.Args[1] {
	case "run":
		cmdRun(os.Args[2:])
	case "replay":
		cmdReplay(os.Args[2:])
	case "selftest":
		cmdSelftest(os.Args[2:])
	case "manifest":
		cmdManifest()
	case "build":
		b := newBuilder()
		defer b.cleanup()
		for _, h := range os.Args[2:] {
			bin := b.build(h)
			dst := filepath.Join(verifDir, "bin", h+".test")
			data, _ := os.ReadFile(bin)
			os.WriteFile(dst, data, 0o755)
			fmt.Println(dst)
		}
	default:
		die2("unknown command %q", os.Args[1])
	}
}

package main

import (
	"encoding/json"
	"fmt"
	"os"
	"path/filepath"
	"sort"
)

// notApplicable lists the properties this family cannot address (DESIGN §4), plus — while the
// framework is being built — properties whose check is not registered yet.
var notApplicable = map[string]string{
	"C24": "pure function from key inputs to bytes: no schedule, clock, fault or history can change a key (its consequences are exercised by C04/C07/C08 with near-colliding inputs); deterministic simulation does not apply",
	"C25": "EvaluateTupleCondition is a pure function of (condition, request context, stored context); deciding it would be input generation in simulator clothing, not simulation",
	"C28": "pure codec / AEAD round trip; the only history-dependent aspect (token reuse with another filter or after mutation through the paging APIs) is covered under C14",
	"C29": "pure string functions (render/parse round trip); nothing for a scheduler, clock or fault to act on",
}

var allProps = []string{"C01", "C02", "C03", "C04", "C05", "C06", "C07", "C08", "C09", "C10", "C11", "C12", "C13", "C14", "C15", "C16", "C17", "C18", "C19", "C20", "C21", "C22", "C23", "C24", "C25", "C26", "C27", "C28", "C29", "C30", "C31", "C32"}

func cmdManifest() {
	type check struct {
		PropertyID  string         `json:"property_id"`
		Quick       string         `json:"quick_cmd"`
		Thorough    string         `json:"thorough_cmd"`
		Evidence    string         `json:"evidence_file"`
		Replay      string         `json:"replay_cmd_template"`
		Engine      string         `json:"engine"`
		Level       map[string]any `json:"level_claimed"`
		LevelNote   string         `json:"level_note"`
		Technique   string         `json:"technique"`
	}
	var checks []check
	ids := make([]string, 0, len(props))
	for id := range props {
		ids = append(ids, id)
	}
	sort.Strings(ids)
	engines := map[string][]string{}
	for _, id := range ids {
		p := props[id]
		engines[p.Harness] = append(engines[p.Harness], id)
		checks = append(checks, check{
			PropertyID: id,
			Quick:      fmt.Sprintf("./bin/vcheck run --property %s --tier quick", id),
			Thorough:   fmt.Sprintf("./bin/vcheck run --property %s --tier thorough", id),
			Evidence:   fmt.Sprintf("/verif/evidence/%s.json", id),
			Replay:     "./bin/vcheck replay {path}",
			Engine:     p.Harness,
			Level:      map[string]any{"category": p.Level, "text": p.LevelText, "design_ref": p.DesignRef},
			LevelNote:  p.LevelNote,
			Technique:  p.Technique,
		})
	}
	var na []map[string]string
	for _, id := range allProps {
		if _, ok := props[id]; ok {
			continue
		}
		reason, ok := notApplicable[id]
		if !ok {
			reason = "check not registered yet (framework under construction); not claimed"
		}
		na = append(na, map[string]string{"property_id": id, "reason": reason})
	}
	var engs []map[string]any
	hs := make([]string, 0, len(engines))
	for h := range engines {
		hs = append(hs, h)
	}
	sort.Strings(hs)
	for _, h := range hs {
		engs = append(engs, map[string]any{"name": h, "path": "/verif/sim/" + h, "serves_properties": engines[h],
			"kind_free_text": "deterministic-simulation harness (testing/synctest bubble per run, seeded virtual-time scheduler, SimDatastore/SimCache/SimPlanner seams, reference-model oracle), injected into the repository module through a generated -overlay"})
	}
	m := map[string]any{
		"version":   1,
		"setup_cmd": "cd /verif && GOFLAGS=-mod=mod GOPROXY=off GOSUMDB=off GOTOOLCHAIN=local go1.26.8 build -o bin/vcheck ./cmd/vcheck",
		"hooks": map[string]any{
			"guard":            "verif",
			"enable":           "no source hooks are committed to /repo: instrumentation and harness code are injected at check time with `go test -c -overlay` generated from the current working tree (see DESIGN §2.4); the build tag name `verif` is reserved",
			"baseline_off_cmd": "cd /repo && go test -vet=off -count=1 -timeout 25m ./...",
			"source_commits":   []string{},
			"add_only":         true,
		},
		"engines":        engs,
		"checks":         checks,
		"not_applicable": na,
		"notes":          "Technique: deterministic simulation with fault injection. One integer (VERIF_SEED) decides every scenario, delay, fault and strategy; workers are single-P processes; every violation is confirmed, minimised and replayed three times from its replay file before it is reported. Known genuine defects are listed in /verif/known_findings.json (status known = recorded, fixed = repaired in /repo by a `fix:` commit; DESIGN.md A.5). /repo carries no hook commits; its commits on top of the snapshot are the repairs 7de6e37, a36d606, b2e0bf5, 471b944, db37a1e, 5d19556, efad93a.",
	}
	data, _ := json.MarshalIndent(m, "", " ")
	if err := os.WriteFile(filepath.Join(verifDir, "MANIFEST.json"), append(data, '\n'), 0o644); err != nil {
		die2("manifest: %v", err)
	}
	fmt.Println("wrote MANIFEST.json with", len(checks), "checks")
}

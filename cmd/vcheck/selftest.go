package main

import (
	"flag"
	"fmt"
	"os"
	"strings"
	"sync"
	"time"
)

// cmdSelftest proves determinism of a harness: N run indices x K executions each in separate
// processes (orchestrator parallelism varies; workers are always single-P); event-log digests
// and full traces must be identical per run index.
func cmdSelftest(args []string) {
	fs := flag.NewFlagSet("selftest", flag.ExitOnError)
	propID := fs.String("property", "", "property id")
	n := fs.Int("n", 64, "run indices")
	k := fs.Int("k", 3, "executions per index")
	fs.Parse(args)
	p := props[*propID]
	if p == nil {
		die2("unknown property %q", *propID)
	}
	b := newBuilder()
	defer b.cleanup()
	bin := b.build(p.Harness)
	type key struct{ idx, rep int }
	res := map[key]workerResult{}
	var mu sync.Mutex
	pars := []int{1, 4, 16}
	for rep := 0; rep < *k; rep++ {
		par := pars[rep%len(pars)]
		sem := make(chan struct{}, par)
		var wg sync.WaitGroup
		// each process executes a small chunk of indices in a rep-dependent order
		chunk := 4
		for s := 0; s < *n; s += chunk {
			wg.Add(1)
			sem <- struct{}{}
			go func(s, rep int) {
				defer wg.Done()
				defer func() { <-sem }()
				for i := 0; i < chunk && s+i < *n; i++ {
					idx := s + i
					if rep%2 == 1 {
						idx = s + (chunk - 1 - i)
						if idx >= *n {
							continue
						}
					}
					j := job{Mode: "run", Property: p.ID, Seed: 424242, Start: idx, Count: 1, Stride: 1, Tier: "quick", Trace: true, KeepGoing: true}
					r := runWorker(bin, j, b.scratch, fmt.Sprintf("st-%d-%d", idx, rep), 120*time.Second)
					mu.Lock()
					res[key{idx, rep}] = r
					mu.Unlock()
				}
			}(s, rep)
		}
		wg.Wait()
	}
	bad := 0
	for idx := 0; idx < *n; idx++ {
		var ref *outcome
		for rep := 0; rep < *k; rep++ {
			r := res[key{idx, rep}]
			if len(r.records) == 0 || r.records[0].Outcome == nil {
				fmt.Printf("selftest: idx %d rep %d: no record (exit %d) %s\n", idx, rep, r.exitCode, tailStr(r.stderr))
				bad++
				continue
			}
			o := r.records[0].Outcome
			if ref == nil {
				ref = o
				continue
			}
			if o.Digest != ref.Digest || strings.Join(o.Trace, "\n") != strings.Join(ref.Trace, "\n") {
				bad++
				fmt.Printf("selftest: DIVERGENCE idx %d rep %d: digest %d vs %d\n", idx, rep, o.Digest, ref.Digest)
				for i := 0; i < len(o.Trace) && i < len(ref.Trace); i++ {
					if o.Trace[i] != ref.Trace[i] {
						fmt.Printf("  first difference at event %d:\n    A: %s\n    B: %s\n", i, ref.Trace[i], o.Trace[i])
						break
					}
				}
			}
		}
	}
	fmt.Printf("selftest: property=%s indices=%d executions=%d divergent=%d\n", p.ID, *n, *k, bad)
	if bad > 0 {
		os.Exit(2)
	}
}

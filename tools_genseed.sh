#!/bin/sh
# usage: tools_genseed.sh <prop> <run_seed> [harness] -- writes the scenario of a run seed to /tmp/vt/seed.json (replay-file format)
h=${3:-hengine}; mkdir -p /tmp/vt
cat > /tmp/vt/genjob.json <<J
{"mode":"gen","property":"$1","seed":1,"start":0,"count":1,"tier":"quick","out":"/tmp/vt/gen.jsonl","run_seed_override":$2}
J
VSIM_JOB=/tmp/vt/genjob.json GOMAXPROCS=1 /verif/bin/$h.test -test.run '^TestWorker$' -test.count=1 >/dev/null 2>&1
python3 - "$1" <<'PY'
import json,sys
for l in open('/tmp/vt/gen.jsonl'):
    r=json.loads(l)
    if r['kind']=='end':
        json.dump({"property":sys.argv[1],"scenario":r['scenario']},open('/tmp/vt/seed.json','w')); print('ok run_seed',r['run_seed'])
PY

#!/bin/sh
# usage: tools_replay.sh <replay-or-scan-file> [harness]  -- debugging helper (uses bin/<harness>.test)
h=${2:-hengine}
python3 - "$1" <<'PY'
import json,sys
d=json.load(open(sys.argv[1]))
json.dump({"mode":"replay","property":d["property"],"scenario":d["scenario"],"out":"/tmp/vt/replay.jsonl"},open('/tmp/vt/replayjob.json','w'))
PY
VSIM_JOB=/tmp/vt/replayjob.json GOMAXPROCS=1 GODEBUG=asyncpreemptoff=1 /verif/bin/$h.test -test.run '^TestWorker$' -test.count=1 2>&1 | grep -v "^PASS\|^ok" | head -${LINES:-60}
python3 - <<'PY'
import json
for l in open('/tmp/vt/replay.jsonl'):
    r=json.loads(l)
    if r['kind']=='end':
        o=r['outcome']; print('VIOLATION:',o.get('violation')); print('INFRA:',o.get('infra')); print('LEAK:',o.get('leak'))
PY

import json,sys
d=json.load(open(sys.argv[1]))
sc=d['scenario']
print(d['violation']['class'], d['violation']['sig']); print(d['violation']['detail']); print(sc.get('note'))
def rw(r):
    k=r['k']
    if k==0: return 'this'
    if k==1: return 'computed(%s)'%r['r']
    if k==2: return '%s from %s'%(r['r'],r['ts'])
    return {3:'union',4:'inter',5:'diff'}[k]+'('+', '.join(rw(c) for c in r['c'])+')'
def res(x):
    s=x['t']
    if x.get('w'): s+=':*'
    if x.get('r'): s+='#'+x['r']
    if x.get('c'): s+=' with '+x['c']
    return s
for m in [sc['model']]+(sc.get('models') or []):
  for t in m['types']:
    print('type',t['n'])
    for r in t.get('rel',[]):
        print('   ',r['n'],':',rw(r['rw']),[res(x) for x in r.get('res',[])])
  print('conds',m.get('conds'))
for t in (sc.get('tuples') or []): print('  T',t)
for r in sc['requests']: print('  R',r)
for o in sc.get('ops') or []: print('  OP',o)
print(sc['knobs'])
if len(sys.argv)>2:
    for l in d.get('trace',[]): print('   ',l)

package hengine

import (
	"context"
	"fmt"
	"sort"
	"strings"
	"testing"
	"time"

	openfgav1 "github.com/openfga/api/proto/openfga/v1"
	"google.golang.org/grpc/status"
	"google.golang.org/protobuf/types/known/wrapperspb"

	"github.com/openfga/openfga/internal/verifsim/gen"
	"github.com/openfga/openfga/internal/verifsim/harness"
	rm "github.com/openfga/openfga/internal/verifsim/refmodel"
	"github.com/openfga/openfga/internal/verifsim/simrt"
	"github.com/openfga/openfga/internal/verifsim/simstore"
	"github.com/openfga/openfga/pkg/authclaims"
	"github.com/openfga/openfga/pkg/server"
)

// C26: API access control allows exactly what the control store grants.
//
// A Server with access control on (experimental flag enable-access-control, OIDC as the declared
// authentication method) over a SimDatastore. The access-control store holds the FGA-on-FGA model
// of pkg/server's own tests and a seed-chosen grant set for three client ids: direct method grants,
// roles (reader, writer, model_writer, admin, creator), system-level grants (admin of system:fga,
// can_call_list_stores / can_call_create_stores, also through application:*), module-level writer
// and direct can_call_write grants. 2-3 target stores hold a model whose types belong to two modules
// (and one type to none). 24 calls per run over every store-scoped method, CreateStore and ListStores,
// by one of the clients or without a client identity; Write requests span no module, one module, two
// modules or a type without module. In a third of the runs storage errors are injected.
//
// Oracle: the reference model evaluates the same access-control model and grants (plus the
// contextual tuples the authorizer adds). A call the reference denies must fail with the forbidden
// code and must not have read or written tuples, changes or assertions of the target store
// (SimDatastore operation log of that request); a call the reference allows must not fail with the
// forbidden code unless a storage fault fired during it ("any error while deciding denies");
// ListStores returns exactly the stores whose can_call_get_store the reference grants; without a
// client identity everything is denied.
func acModel() *rm.Model {
	this := func() *rm.Rewrite { return &rm.Rewrite{Kind: rm.This} }
	comp := func(r string) *rm.Rewrite { return &rm.Rewrite{Kind: rm.Computed, Relation: r} }
	ttu := func(ts, r string) *rm.Rewrite { return &rm.Rewrite{Kind: rm.TTU, Tupleset: ts, Relation: r} }
	union := func(c ...*rm.Rewrite) *rm.Rewrite { return &rm.Rewrite{Kind: rm.Union, Children: c} }
	app := []rm.Restriction{{Type: "application"}}
	appW := []rm.Restriction{{Type: "application"}, {Type: "application", Wildcard: true}}
	rel := func(name string, rw *rm.Rewrite, res []rm.Restriction) *rm.Relation {
		return &rm.Relation{Name: name, Rewrite: rw, Restrictions: res}
	}
	store := &rm.TypeDef{Name: "store"}
	store.Relations = append(store.Relations,
		rel("system", this(), []rm.Restriction{{Type: "system"}}),
		rel("creator", this(), app),
		rel("admin", union(this(), comp("creator"), ttu("system", "admin")), app),
		rel("model_writer", union(this(), comp("admin")), app),
		rel("reader", union(this(), comp("admin")), app),
		rel("writer", union(this(), comp("admin")), app))
	for _, x := range [][2]string{{"can_call_delete_store", "admin"}, {"can_call_get_store", "admin"}, {"can_call_check", "reader"}, {"can_call_expand", "reader"},
		{"can_call_list_objects", "reader"}, {"can_call_list_users", "reader"}, {"can_call_read", "reader"}, {"can_call_read_changes", "reader"},
		{"can_call_write", "writer"}, {"can_call_write_assertions", "model_writer"}, {"can_call_write_authorization_models", "model_writer"}} {
		store.Relations = append(store.Relations, rel(x[0], union(this(), comp(x[1])), app))
	}
	for _, x := range []string{"can_call_read_assertions", "can_call_read_authorization_models"} {
		store.Relations = append(store.Relations, rel(x, union(this(), comp("reader"), comp("model_writer")), app))
	}
	return &rm.Model{Types: []*rm.TypeDef{
		{Name: "system", Relations: []*rm.Relation{
			rel("can_call_create_stores", union(this(), comp("admin")), appW),
			rel("can_call_list_stores", union(this(), comp("admin")), appW),
			rel("admin", this(), app)}},
		{Name: "application"},
		{Name: "module", Relations: []*rm.Relation{
			rel("can_call_write", union(this(), comp("writer"), ttu("store", "writer")), app),
			rel("store", this(), []rm.Restriction{{Type: "store"}}),
			rel("writer", this(), app)}},
		store,
	}}
}

var acMethods = []string{"Check", "BatchCheck", "ListObjects", "StreamedListObjects", "ListUsers", "Expand", "Read", "ReadChanges", "Write", "WriteAuthorizationModel",
	"ReadAuthorizationModel", "ReadAuthorizationModels", "WriteAssertions", "ReadAssertions", "GetStore", "DeleteStore", "CreateStore", "ListStores"}

var acRelationOf = map[string]string{"Check": "can_call_check", "BatchCheck": "can_call_check", "ListObjects": "can_call_list_objects", "StreamedListObjects": "can_call_list_objects",
	"ListUsers": "can_call_list_users", "Expand": "can_call_expand", "Read": "can_call_read", "ReadChanges": "can_call_read_changes", "Write": "can_call_write",
	"WriteAuthorizationModel": "can_call_write_authorization_models", "ReadAuthorizationModel": "can_call_read_authorization_models", "ReadAuthorizationModels": "can_call_read_authorization_models",
	"WriteAssertions": "can_call_write_assertions", "ReadAssertions": "can_call_read_assertions", "GetStore": "can_call_get_store", "DeleteStore": "can_call_delete_store"}

func c26Gen(runSeed uint64, tier string) *gen.Scenario {
	g := gen.New(runSeed ^ 0xc26)
	sc := &gen.Scenario{Version: 1, Harness: "hengine", Knobs: map[string]int64{}, Model: acModel()}
	nStores := 2 + g.Intn(2)
	sc.Knobs["stores"] = int64(nStores)
	clients := []string{"c0", "c1", "c2"}
	roles := []string{"admin", "reader", "writer", "model_writer", "creator"}
	var direct []string
	for _, r := range acModel().Type("store").Relations {
		if strings.HasPrefix(r.Name, "can_call_") {
			direct = append(direct, r.Name)
		}
	}
	sort.Strings(direct)
	// grants are written with "$k" for the k-th target store's id (known only at run time)
	ng := 2 + g.Intn(10)
	for i := 0; i < ng; i++ {
		c := "application:" + gen.Pick(g, clients)
		st := fmt.Sprintf("$%d", g.Intn(nStores))
		var t rm.Tuple
		switch x := g.Intn(100); {
		case x < 30:
			t = rm.Tuple{Obj: "store:" + st, Rel: gen.Pick(g, roles), User: c}
		case x < 55:
			t = rm.Tuple{Obj: "store:" + st, Rel: gen.Pick(g, direct), User: c}
		case x < 63:
			t = rm.Tuple{Obj: "system:fga", Rel: "admin", User: c}
		case x < 75:
			u := c
			if g.Chance(0.3) {
				u = "application:*"
			}
			t = rm.Tuple{Obj: "system:fga", Rel: gen.Pick(g, []string{"can_call_list_stores", "can_call_create_stores"}), User: u}
		case x < 88:
			t = rm.Tuple{Obj: fmt.Sprintf("module:%s|module%d", st, g.Intn(2)), Rel: gen.Pick(g, []string{"writer", "can_call_write"}), User: c}
		default:
			t = rm.Tuple{Obj: "store:" + st, Rel: "system", User: "system:fga"}
		}
		dup := false
		for _, o := range sc.Tuples {
			if o.Key() == t.Key() {
				dup = true
			}
		}
		if !dup {
			sc.Tuples = append(sc.Tuples, t)
		}
	}
	for i := 0; i < 24; i++ {
		r := gen.Request{Kind: gen.Pick(g, acMethods), Limit: g.Intn(nStores)}
		// the caller: User = client id ("" = no identity)
		if g.Chance(0.9) {
			r.User = gen.Pick(g, clients)
		}
		if r.Kind == "Write" {
			// which types the write touches: bit 0 module0, bit 1 module1, bit 2 the type without module
			// bit 3: m0#audit, a relation of module1 on a type of module0 (listed after the m0#member tuple)
			r.Conc = gen.Pick(g, []int{1, 2, 3, 4, 5, 1, 2, 8, 9, 9, 10})
		}
		sc.Requests = append(sc.Requests, r)
	}
	if g.Chance(0.3) {
		sc.Knobs["faults"] = int64(simstore.FaultOpenErr | simstore.FaultIterErr)
		sc.Knobs["fault_rate_pm"] = 80
		sc.Knobs["max_faults"] = 8
	}
	sc.Knobs["delay_mode"] = int64(g.Intn(simrt.NumModes))
	sc.Knobs["ls_page"] = []int64{0, 0, 1, 2}[g.Intn(4)]
	if g.Chance(0.12) {
		sc.Knobs["sqlite"] = 1 // the real SQLite backend (its ListStores builds the id filter in SQL)
	}
	return sc
}

func targetModel() *openfgav1.AuthorizationModel {
	td := func(name, module string) *openfgav1.TypeDefinition {
		md := &openfgav1.Metadata{Relations: map[string]*openfgav1.RelationMetadata{"member": {DirectlyRelatedUserTypes: []*openfgav1.RelationReference{{Type: "user"}}}}}
		if module != "" {
			md.Module = module
		}
		return &openfgav1.TypeDefinition{Type: name, Relations: map[string]*openfgav1.Userset{"member": {Userset: &openfgav1.Userset_This{This: &openfgav1.DirectUserset{}}}}, Metadata: md}
	}
	m0 := td("m0", "module0")
	// a relation that another module adds to the type: it belongs to that module, not to the type's
	m0.Relations["audit"] = &openfgav1.Userset{Userset: &openfgav1.Userset_This{This: &openfgav1.DirectUserset{}}}
	m0.Metadata.Relations["audit"] = &openfgav1.RelationMetadata{Module: "module1", DirectlyRelatedUserTypes: []*openfgav1.RelationReference{{Type: "user"}}}
	return &openfgav1.AuthorizationModel{SchemaVersion: "1.1", TypeDefinitions: []*openfgav1.TypeDefinition{{Type: "user"}, m0, td("m1", "module1"), td("plain", "")}}
}

const forbiddenCode = uint32(openfgav1.AuthErrorCode_forbidden)

func c26Exec(t *testing.T, sc *gen.Scenario, trace bool) *harness.Outcome {
	return runBubble(t, sc, trace, func(e *Env) {
		// Setup gave us store S1 holding sc.Model (the access-control model) and the grant tuples with
		// their placeholders; rewrite the grants once the target stores exist.
		bg := context.Background()
		nStores := int(sc.Knob("stores", 2))
		var stores, models []string
		tm := targetModel()
		for k := 0; k < nStores; k++ {
			id := e.NewULID(600 + k)
			e.Run.Name(id, fmt.Sprintf("T%d", k))
			if _, err := e.Mem.CreateStore(bg, &openfgav1.Store{Id: id, Name: fmt.Sprintf("target-%d", k)}); err != nil {
				e.Out.Infra = "create store: " + err.Error()
				return
			}
			m := targetModel()
			m.Id = e.NewULID(700 + k)
			if err := e.Mem.WriteAuthorizationModel(bg, id, m); err != nil {
				e.Out.Infra = "write model: " + err.Error()
				return
			}
			_ = e.WriteTuplesRawTo(id, []rm.Tuple{{Obj: "m0:1", Rel: "member", User: "user:a"}, {Obj: "plain:1", Rel: "member", User: "user:a"}})
			stores, models = append(stores, id), append(models, m.Id)
		}
		_ = tm
		subst := func(s string) string {
			for k := range stores {
				s = strings.ReplaceAll(s, fmt.Sprintf("$%d", k), stores[k])
			}
			return s
		}
		var grants []rm.Tuple
		seen := map[string]bool{}
		for _, gt := range sc.Tuples {
			tu := rm.Tuple{Obj: subst(gt.Obj), Rel: gt.Rel, User: subst(gt.User)}
			if !seen[tu.Key()] {
				seen[tu.Key()] = true
				grants = append(grants, tu)
			}
		}
		// Setup wrote the placeholder tuples into S1 as they are; replace them by the real ones
		if err := e.replaceStoreTuples(e.StoreID, sc.Tuples, grants); err != nil {
			e.Out.Infra = "grants: " + err.Error()
			return
		}
		s, err := e.NewServer(server.WithExperimentals("enable-access-control"), server.WithAccessControlParams(true, e.StoreID, e.ModelID, "oidc"))
		if err != nil {
			e.Out.Infra = "server: " + err.Error()
			return
		}
		// continuation tokens as another party would hold them: one per page boundary of the full listing
		deleted := map[string]bool{}
		lsPage := int32(sc.Knob("ls_page", 0))
		var foreignTokens []string
		if plain, err := e.NewServer(); err == nil {
			token := ""
			for page := 0; page < 8; page++ {
				resp, err := plain.ListStores(bg, &openfgav1.ListStoresRequest{PageSize: wrapperspb.Int32(1), ContinuationToken: token})
				if err != nil || resp.GetContinuationToken() == "" {
					break
				}
				token = resp.GetContinuationToken()
				foreignTokens = append(foreignTokens, token)
			}
		}
		ref := func(obj, rel, client string, ctxt ...rm.Tuple) bool {
			st := rm.NewState(sc.Model, append(append([]rm.Tuple(nil), grants...), ctxt...))
			k, _ := st.Check(obj, rel, "application:"+client, nil)
			return k == rm.True
		}
		for i, rq := range sc.Requests {
			k := rq.Limit % nStores
			sid, mid := stores[k], models[k]
			rid := fmt.Sprintf("r%d", i)
			ctx, cancel := context.WithTimeout(simrt.WithReq(context.Background(), rid), 10*time.Second)
			if rq.User != "" {
				ctx = authclaims.ContextWithAuthClaims(ctx, &authclaims.AuthClaims{ClientID: rq.User})
			}
			// what the reference grants
			sysTuple := rm.Tuple{Obj: "store:" + sid, Rel: "system", User: "system:fga"}
			want := false
			var mods []string
			switch rq.Kind {
			case "CreateStore":
				want = rq.User != "" && ref("system:fga", "can_call_create_stores", rq.User)
			case "ListStores":
				want = rq.User != "" && ref("system:fga", "can_call_list_stores", rq.User)
			case "Write":
				want = rq.User != "" && ref("store:"+sid, "can_call_write", rq.User, sysTuple)
				if rq.Conc&1 != 0 {
					mods = append(mods, "module0")
				}
				if rq.Conc&2 != 0 || rq.Conc&8 != 0 {
					mods = append(mods, "module1")
				}
				if !want && rq.User != "" && rq.Conc&4 == 0 && len(mods) == 1 {
					// a write confined to one module: the module grant suffices
					mobj := fmt.Sprintf("module:%s|%s", sid, mods[0])
					want = ref(mobj, "can_call_write", rq.User, rm.Tuple{Obj: mobj, Rel: "store", User: "store:" + sid}, sysTuple)
				}
			default:
				want = rq.User != "" && ref("store:"+sid, acRelationOf[rq.Kind], rq.User, sysTuple)
			}
			var ops []string
			e.DS.Hook = func(_ context.Context, op simstore.OpInfo) {
				if op.Req == rid {
					ops = append(ops, op.Op+"@"+op.Store)
				}
			}
			before := firedTotal(e.DS.Fired())
			var callErr error
			var listed, listedForeign []string
			_, _ = timed(e, rq.Kind, func() (struct{}, error) {
				switch rq.Kind {
				case "Check":
					_, callErr = s.Check(ctx, &openfgav1.CheckRequest{StoreId: sid, AuthorizationModelId: mid, TupleKey: &openfgav1.CheckRequestTupleKey{Object: "m0:1", Relation: "member", User: "user:a"}})
				case "BatchCheck":
					_, callErr = s.BatchCheck(ctx, &openfgav1.BatchCheckRequest{StoreId: sid, AuthorizationModelId: mid, Checks: []*openfgav1.BatchCheckItem{{CorrelationId: "a", TupleKey: &openfgav1.CheckRequestTupleKey{Object: "m0:1", Relation: "member", User: "user:a"}}}})
				case "ListObjects":
					_, callErr = s.ListObjects(ctx, &openfgav1.ListObjectsRequest{StoreId: sid, AuthorizationModelId: mid, Type: "m0", Relation: "member", User: "user:a"})
				case "StreamedListObjects":
					callErr = s.StreamedListObjects(&openfgav1.StreamedListObjectsRequest{StoreId: sid, AuthorizationModelId: mid, Type: "m0", Relation: "member", User: "user:a"}, &collectStream{ctx: ctx})
				case "ListUsers":
					_, callErr = s.ListUsers(ctx, &openfgav1.ListUsersRequest{StoreId: sid, AuthorizationModelId: mid, Object: &openfgav1.Object{Type: "m0", Id: "1"}, Relation: "member", UserFilters: []*openfgav1.UserTypeFilter{{Type: "user"}}})
				case "Expand":
					_, callErr = s.Expand(ctx, &openfgav1.ExpandRequest{StoreId: sid, AuthorizationModelId: mid, TupleKey: &openfgav1.ExpandRequestTupleKey{Object: "m0:1", Relation: "member"}})
				case "Read":
					_, callErr = s.Read(ctx, &openfgav1.ReadRequest{StoreId: sid})
				case "ReadChanges":
					_, callErr = s.ReadChanges(ctx, &openfgav1.ReadChangesRequest{StoreId: sid})
				case "Write":
					var tks []*openfgav1.TupleKey
					u := fmt.Sprintf("user:w%d", i)
					if rq.Conc&1 != 0 {
						tks = append(tks, &openfgav1.TupleKey{Object: "m0:9", Relation: "member", User: u})
					}
					if rq.Conc&8 != 0 {
						tks = append(tks, &openfgav1.TupleKey{Object: "m0:9", Relation: "audit", User: u})
					}
					if rq.Conc&2 != 0 {
						tks = append(tks, &openfgav1.TupleKey{Object: "m1:9", Relation: "member", User: u})
					}
					if rq.Conc&4 != 0 {
						tks = append(tks, &openfgav1.TupleKey{Object: "plain:9", Relation: "member", User: u})
					}
					_, callErr = s.Write(ctx, &openfgav1.WriteRequest{StoreId: sid, AuthorizationModelId: mid, Writes: &openfgav1.WriteRequestWrites{TupleKeys: tks}})
				case "WriteAuthorizationModel":
					m := targetModel()
					_, callErr = s.WriteAuthorizationModel(ctx, &openfgav1.WriteAuthorizationModelRequest{StoreId: sid, SchemaVersion: m.GetSchemaVersion(), TypeDefinitions: m.GetTypeDefinitions()})
				case "ReadAuthorizationModel":
					_, callErr = s.ReadAuthorizationModel(ctx, &openfgav1.ReadAuthorizationModelRequest{StoreId: sid, Id: mid})
				case "ReadAuthorizationModels":
					_, callErr = s.ReadAuthorizationModels(ctx, &openfgav1.ReadAuthorizationModelsRequest{StoreId: sid})
				case "WriteAssertions":
					_, callErr = s.WriteAssertions(ctx, &openfgav1.WriteAssertionsRequest{StoreId: sid, AuthorizationModelId: mid, Assertions: []*openfgav1.Assertion{{TupleKey: &openfgav1.AssertionTupleKey{Object: "m0:1", Relation: "member", User: "user:a"}, Expectation: true}}})
				case "ReadAssertions":
					_, callErr = s.ReadAssertions(ctx, &openfgav1.ReadAssertionsRequest{StoreId: sid, AuthorizationModelId: mid})
				case "GetStore":
					_, callErr = s.GetStore(ctx, &openfgav1.GetStoreRequest{StoreId: sid})
				case "DeleteStore":
					// deleting is destructive: aim it at a store nobody else uses, created for the purpose,
					// with the same grants as store k (grants name store k: so only the decision is tested)
					_, callErr = s.DeleteStore(ctx, &openfgav1.DeleteStoreRequest{StoreId: sid})
					if callErr == nil {
						// put it back for the following calls
						// (a backend that keeps the deleted row refuses the id: the store then stays deleted)
						if _, err := e.Mem.CreateStore(bg, &openfgav1.Store{Id: sid, Name: fmt.Sprintf("target-%d", k)}); err != nil {
							deleted[sid] = true
						}
					}
				case "CreateStore":
					_, callErr = s.CreateStore(ctx, &openfgav1.CreateStoreRequest{Name: fmt.Sprintf("created-%d", i)})
				case "ListStores":
					// follow the continuation tokens (page size 0 = the server's default: one page)
					token := ""
					for page := 0; page < 20; page++ {
						var resp *openfgav1.ListStoresResponse
						req := &openfgav1.ListStoresRequest{ContinuationToken: token}
						if lsPage > 0 {
							req.PageSize = wrapperspb.Int32(lsPage)
						}
						resp, callErr = s.ListStores(ctx, req)
						for _, x := range resp.GetStores() {
							listed = append(listed, x.GetId())
						}
						token = resp.GetContinuationToken()
						if callErr != nil || token == "" {
							break
						}
					}
					// a continuation token is not bound to a caller: one issued to somebody who sees every
					// store (the same datastore behind a server without access control) must still only
					// ever show this caller its own stores
					if callErr == nil {
						for _, ft := range foreignTokens {
							resp, err := s.ListStores(ctx, &openfgav1.ListStoresRequest{PageSize: wrapperspb.Int32(2), ContinuationToken: ft})
							if err != nil {
								continue
							}
							for _, x := range resp.GetStores() {
								listedForeign = append(listedForeign, x.GetId())
							}
						}
					}
				}
				return struct{}{}, nil
			})
			cancel()
			e.DS.Hook = nil
			if e.Hung {
				return
			}
			faultFired := firedTotal(e.DS.Fired()) != before
			e.Out.Evals++
			forbidden := callErr != nil && uint32(status.Code(callErr)) == forbiddenCode
			who := rq.User
			if who == "" {
				who = "(no client identity)"
			}
			desc := fmt.Sprintf("call %d: %s on %s by %s (write mask %d): err=%v; grants %v", i, rq.Kind, e.Run.Canon(sid), who, rq.Conc, callErr, e.Run.CanonAll(fmt.Sprint(grants)))
			e.Run.Log("call", fmt.Sprintf("r%d %s want=%v forbidden=%v err=%v fault=%v", i, rq.Kind, want, forbidden, callErr != nil, faultFired))
			// data access of the target store by a request that must be denied
			touchedData := ""
			for _, o := range ops {
				p := strings.SplitN(o, "@", 2)
				if p[1] != "S1" && (p[0] == "Read" || p[0] == "ReadPage" || p[0] == "ReadUserTuple" || p[0] == "ReadUsersetTuples" || p[0] == "ReadStartingWithUser" || p[0] == "Write" || p[0] == "ReadChanges" || p[0] == "ReadAssertions" || p[0] == "WriteAssertions" || p[0] == "WriteAuthorizationModel" || p[0] == "DeleteStore" || p[0] == "CreateStore") {
					touchedData = o
				}
			}
			sig := "method=" + rq.Kind
			if rq.User == "" {
				sig += " no_identity"
			}
			if faultFired {
				sig += " fault_during_call"
			}
			switch {
			case !want && callErr == nil:
				e.Violate("unauthorized_call_allowed", sig, "%s — the reference denies it", desc)
				return
			case !want && touchedData != "" && rq.Kind != "ListStores":
				e.Violate("data_access_before_denial", sig, "%s — denied by the reference, yet the request performed %s (operations: %v)", desc, touchedData, ops)
				return
			case !want && !forbidden && !faultFired:
				e.Violate("denied_with_wrong_error", sig, "%s — must be refused with the forbidden code", desc)
				return
			case want && forbidden && !faultFired:
				e.Violate("authorized_call_denied", sig, "%s — the reference allows it", desc)
				return
			}
			if rq.Kind == "ListStores" && want && callErr == nil {
				var exp []string
				all := append([]string{e.StoreID}, stores...)
				for _, id := range all {
					if !deleted[id] && ref("store:"+id, "can_call_get_store", rq.User) {
						exp = append(exp, id)
					}
				}
				sort.Strings(exp)
				sort.Strings(listed)
				// stores created by earlier CreateStore calls of this run belong to nobody: never listed
				expSet := toSet(exp)
				for _, id := range listedForeign {
					if !expSet[id] && !faultFired {
						e.Violate("liststores_leaks_with_foreign_token", sig, "%s — presented with a continuation token issued to another caller, ListStores returned %s, which the caller may not get (it may get exactly %v)", desc, e.Run.Canon(id), e.Run.CanonAll(fmt.Sprint(exp)))
						return
					}
				}
				if strings.Join(exp, ",") != strings.Join(listed, ",") && !faultFired {
					tag := ""
					if len(exp) == 0 {
						tag = " caller_may_get_no_store"
					}
					e.Violate("liststores_differs", sig+tag, "%s — ListStores returned %v, the caller may get exactly %v", desc, e.Run.CanonAll(fmt.Sprint(listed)), e.Run.CanonAll(fmt.Sprint(exp)))
					return
				}
			}
			if want {
				simrt.Probe("calls_allowed")
			} else {
				simrt.Probe("calls_denied")
			}
		}
		e.Out.NonTrivial = e.Out.Evals > 0
	})
}


// replaceStoreTuples deletes old and writes new (raw, behind the validator's back).
func (e *Env) replaceStoreTuples(storeID string, old, new []rm.Tuple) error {
	var dels []*openfgav1.TupleKeyWithoutCondition
	for _, t := range old {
		dels = append(dels, &openfgav1.TupleKeyWithoutCondition{Object: t.Obj, Relation: t.Rel, User: t.User})
	}
	if len(dels) > 0 {
		if err := e.Mem.Write(context.Background(), storeID, dels, nil); err != nil {
			return err
		}
	}
	return e.WriteTuplesRawTo(storeID, new)
}

package hengine

import (
	"context"
	"fmt"
	"sort"
	"strings"
	"testing"
	"time"

	openfgav1 "github.com/openfga/api/proto/openfga/v1"
	"google.golang.org/protobuf/proto"

	"github.com/openfga/openfga/internal/verifsim/gen"
	"github.com/openfga/openfga/internal/verifsim/harness"
	rm "github.com/openfga/openfga/internal/verifsim/refmodel"
	"github.com/openfga/openfga/internal/verifsim/simrt"
	"github.com/openfga/openfga/internal/verifsim/simstore"
	"github.com/openfga/openfga/pkg/server"
	"github.com/openfga/openfga/pkg/typesystem"
)

// C17: authorization models are validated, immutable, and model-less requests use the latest one.
//
// History over two stores: WriteAuthorizationModel of valid variants of one vocabulary (relations
// exchanging their definitions) and of models broken on purpose in one documented way each;
// ReadAuthorizationModel / ReadAuthorizationModels; Check / ListObjects / ListUsers WITHOUT a model
// id, sequentially, concurrently across the two stores, and concurrently with a model write; clock
// advances; storage errors on the model write.
//
// Oracle: a broken model is rejected and leaves no trace; an accepted model gets an id greater than
// every earlier id of its store, is returned unchanged by ReadAuthorizationModel from then on and
// appears newest-first in ReadAuthorizationModels; a model-less request issued after a write has
// returned is answered by the reference under that store's newest model; one that overlaps a write
// may use the previous or the new model.
var c17Breakages = []string{"undefined_relation", "undefined_type", "tupleset_not_direct", "empty_type_name", "self_computed", "unknown_condition", "no_schema", "duplicate_type",
	// aimed at one seed-chosen relation of the model, its rewrite left as it is
	"unknown_condition_on_restriction", "unknown_condition_on_tupleset", "tupleset_with_wildcard", "tupleset_with_userset", "userset_of_undefined_relation", "ttu_computed_defined_nowhere", "condition_expression_invalid"}

func c17Gen(runSeed uint64, tier string) *gen.Scenario {
	sc := genEngineScenario(runSeed, tier, 0)
	g := gen.New(runSeed ^ 0xc17)
	var keep []rm.Tuple
	seen := map[string]bool{}
	for _, t := range sc.Tuples {
		if sc.Model.ValidForWrite(t) && !sc.Model.AmbiguousCondShape(t) && !seen[t.Key()] {
			seen[t.Key()] = true
			keep = append(keep, t)
		}
	}
	sc.Tuples = keep
	for k := 0; k < 4; k++ {
		v := g.SwapVariant(sc.Model)
		if k > 0 && len(sc.Models) > 0 && g.Chance(0.5) && sc.Models[len(sc.Models)-1] != nil {
			v = g.SwapVariant(sc.Models[len(sc.Models)-1]) // drift further away
		}
		if v != nil && !gen.Stratified(v) {
			v = nil
		}
		sc.Models = append(sc.Models, v)
	}
	checks := g.CheckRequests(sc.Model, 6, [3]float64{1, 0, 0})
	los := g.ListObjectsRequests(sc.Model, 3, [3]float64{1, 0, 0})
	var reqs []gen.Request
	reqs = append(reqs, checks...)
	reqs = append(reqs, los...)
	if len(reqs) == 0 {
		return sc
	}
	var ops []gen.Op
	n := 12 + g.Intn(14)
	for i := 0; i < n; i++ {
		st := g.Intn(2)
		switch x := g.Intn(100); {
		case x < 22:
			ops = append(ops, gen.Op{Kind: "wmodel", Store: st, Model: 1 + g.Intn(len(sc.Models))})
		case x < 30:
			ops = append(ops, gen.Op{Kind: "wmodel", Store: st, Model: 0})
		case x < 42:
			ops = append(ops, gen.Op{Kind: "wbroken", Store: st, Model: g.Intn(1 + len(sc.Models)), S: gen.Pick(g, c17Breakages), N: g.Intn(1 << 20)})
		case x < 52:
			ops = append(ops, gen.Op{Kind: "rmodels", Store: st})
		case x < 60:
			ops = append(ops, gen.Op{Kind: "rmodel", Store: st, N: g.Intn(8)})
		case x < 85:
			r := gen.Pick(g, reqs)
			op := gen.Op{Kind: "latest", Req: &r, Store: st}
			if g.Chance(0.4) {
				op.N = 1 // both stores at once
			}
			ops = append(ops, op)
		case x < 95:
			// a model write overlapping model-less requests on the same store
			r := gen.Pick(g, reqs)
			ops = append(ops, gen.Op{Kind: "race", Req: &r, Store: st, Model: 1 + g.Intn(len(sc.Models)), N: 1 + g.Intn(3)})
		default:
			ops = append(ops, gen.Op{Kind: "sleep", Dur: int64(1+g.Intn(20)) * int64(time.Second)})
		}
	}
	sc.Ops = ops
	sc.Knobs["level"] = 1
	sc.Knobs["caches"] = int64(g.Intn(2))
	if g.Chance(0.25) {
		sc.Knobs["faults"] = int64(simstore.FaultWriteErr)
		sc.Knobs["fault_rate_pm"] = 150
	}
	return sc
}

// relRef names one relation of a model.
type relRef struct {
	td   *openfgav1.TypeDefinition
	name string
}

// directRelations lists the relations that have directly related user types (sorted), split into
// those some tuple-to-userset of their type uses as its tupleset and the others.
func directRelations(m *openfgav1.AuthorizationModel) (tuplesets, others []relRef) {
	var walk func(u *openfgav1.Userset, f func(*openfgav1.TupleToUserset))
	walk = func(u *openfgav1.Userset, f func(*openfgav1.TupleToUserset)) {
		switch x := u.GetUserset().(type) {
		case *openfgav1.Userset_TupleToUserset:
			f(x.TupleToUserset)
		case *openfgav1.Userset_Union:
			for _, c := range x.Union.GetChild() {
				walk(c, f)
			}
		case *openfgav1.Userset_Intersection:
			for _, c := range x.Intersection.GetChild() {
				walk(c, f)
			}
		case *openfgav1.Userset_Difference:
			walk(x.Difference.GetBase(), f)
			walk(x.Difference.GetSubtract(), f)
		}
	}
	for _, td := range m.GetTypeDefinitions() {
		ts := map[string]bool{}
		var names []string
		for name, rw := range td.GetRelations() {
			names = append(names, name)
			walk(rw, func(t *openfgav1.TupleToUserset) { ts[t.GetTupleset().GetRelation()] = true })
		}
		sort.Strings(names)
		for _, name := range names {
			if len(td.GetMetadata().GetRelations()[name].GetDirectlyRelatedUserTypes()) == 0 {
				continue
			}
			if ts[name] {
				tuplesets = append(tuplesets, relRef{td, name})
			} else {
				others = append(others, relRef{td, name})
			}
		}
	}
	return
}

// breakModelAt applies one of the aimed breakages; pick chooses among the candidate relations.
func breakModelAt(b *openfgav1.AuthorizationModel, how string, pick int) *openfgav1.AuthorizationModel {
	tuplesets, others := directRelations(b)
	choose := func(c []relRef) *relRef {
		if len(c) == 0 {
			return nil
		}
		return &c[pick%len(c)]
	}
	refsOf := func(r *relRef) []*openfgav1.RelationReference {
		return r.td.GetMetadata().GetRelations()[r.name].GetDirectlyRelatedUserTypes()
	}
	switch how {
	case "unknown_condition_on_restriction":
		r := choose(append(append([]relRef(nil), others...), tuplesets...))
		if r == nil {
			return nil
		}
		refs := refsOf(r)
		refs[pick%len(refs)].Condition = "no_such_condition"
	case "unknown_condition_on_tupleset":
		r := choose(tuplesets)
		if r == nil {
			return nil
		}
		refs := refsOf(r)
		refs[pick%len(refs)].Condition = "no_such_condition"
	case "tupleset_with_wildcard":
		r := choose(tuplesets)
		if r == nil {
			return nil
		}
		md := r.td.GetMetadata().GetRelations()[r.name]
		md.DirectlyRelatedUserTypes = append(md.DirectlyRelatedUserTypes, &openfgav1.RelationReference{Type: refsOf(r)[0].GetType(), RelationOrWildcard: &openfgav1.RelationReference_Wildcard{Wildcard: &openfgav1.Wildcard{}}})
	case "tupleset_with_userset":
		r := choose(tuplesets)
		if r == nil {
			return nil
		}
		md := r.td.GetMetadata().GetRelations()[r.name]
		md.DirectlyRelatedUserTypes = append(md.DirectlyRelatedUserTypes, &openfgav1.RelationReference{Type: r.td.GetType(), RelationOrWildcard: &openfgav1.RelationReference_Relation{Relation: r.name}})
	case "userset_of_undefined_relation":
		r := choose(others)
		if r == nil {
			return nil
		}
		md := r.td.GetMetadata().GetRelations()[r.name]
		md.DirectlyRelatedUserTypes = append(md.DirectlyRelatedUserTypes, &openfgav1.RelationReference{Type: r.td.GetType(), RelationOrWildcard: &openfgav1.RelationReference_Relation{Relation: "no_such_relation"}})
	case "ttu_computed_defined_nowhere":
		r := choose(tuplesets)
		if r == nil {
			return nil
		}
		r.td.Relations["zz_via"] = &openfgav1.Userset{Userset: &openfgav1.Userset_TupleToUserset{TupleToUserset: &openfgav1.TupleToUserset{
			Tupleset: &openfgav1.ObjectRelation{Relation: r.name}, ComputedUserset: &openfgav1.ObjectRelation{Relation: "no_such_relation"}}}}
		r.td.Metadata.Relations["zz_via"] = &openfgav1.RelationMetadata{}
	case "condition_expression_invalid":
		if len(b.GetConditions()) == 0 {
			return nil
		}
		var names []string
		for n := range b.GetConditions() {
			names = append(names, n)
		}
		sort.Strings(names)
		b.Conditions[names[pick%len(names)]].Expression = "x <<< 1 &&"
	default:
		return nil
	}
	return b
}

func breakModel(m *openfgav1.AuthorizationModel, how string, pick int) *openfgav1.AuthorizationModel {
	b := proto.Clone(m).(*openfgav1.AuthorizationModel)
	if strings.Contains(how, "_on_") || strings.HasPrefix(how, "tupleset_with") || how == "userset_of_undefined_relation" || how == "ttu_computed_defined_nowhere" || how == "condition_expression_invalid" {
		return breakModelAt(b, how, pick)
	}
	var td *openfgav1.TypeDefinition
	for _, t := range b.GetTypeDefinitions() {
		if len(t.GetRelations()) > 0 {
			td = t
			break
		}
	}
	if td == nil {
		return nil
	}
	first := ""
	for name := range td.GetRelations() {
		if first == "" || name < first {
			first = name
		}
	}
	switch how {
	case "undefined_relation":
		td.Relations[first] = &openfgav1.Userset{Userset: &openfgav1.Userset_ComputedUserset{ComputedUserset: &openfgav1.ObjectRelation{Relation: "no_such_relation"}}}
		td.Metadata.Relations[first] = &openfgav1.RelationMetadata{}
	case "undefined_type":
		td.Relations[first] = &openfgav1.Userset{Userset: &openfgav1.Userset_This{This: &openfgav1.DirectUserset{}}}
		td.Metadata.Relations[first] = &openfgav1.RelationMetadata{DirectlyRelatedUserTypes: []*openfgav1.RelationReference{{Type: "no_such_type"}}}
	case "tupleset_not_direct":
		// x from ts where ts is a computed relation
		td.Relations["zz_ts"] = &openfgav1.Userset{Userset: &openfgav1.Userset_ComputedUserset{ComputedUserset: &openfgav1.ObjectRelation{Relation: first}}}
		td.Metadata.Relations["zz_ts"] = &openfgav1.RelationMetadata{}
		td.Relations["zz_via"] = &openfgav1.Userset{Userset: &openfgav1.Userset_TupleToUserset{TupleToUserset: &openfgav1.TupleToUserset{
			Tupleset: &openfgav1.ObjectRelation{Relation: "zz_ts"}, ComputedUserset: &openfgav1.ObjectRelation{Relation: first}}}}
		td.Metadata.Relations["zz_via"] = &openfgav1.RelationMetadata{}
	case "empty_type_name":
		b.TypeDefinitions = append(b.TypeDefinitions, &openfgav1.TypeDefinition{Type: ""})
	case "self_computed":
		td.Relations[first] = &openfgav1.Userset{Userset: &openfgav1.Userset_ComputedUserset{ComputedUserset: &openfgav1.ObjectRelation{Relation: first}}}
		td.Metadata.Relations[first] = &openfgav1.RelationMetadata{}
	case "unknown_condition":
		td.Relations[first] = &openfgav1.Userset{Userset: &openfgav1.Userset_This{This: &openfgav1.DirectUserset{}}}
		td.Metadata.Relations[first] = &openfgav1.RelationMetadata{DirectlyRelatedUserTypes: []*openfgav1.RelationReference{{Type: "user", Condition: "no_such_condition"}}}
	case "no_schema":
		b.SchemaVersion = "0.9"
	case "duplicate_type":
		b.TypeDefinitions = append(b.TypeDefinitions, proto.Clone(td).(*openfgav1.TypeDefinition))
	}
	return b
}

type c17Store struct {
	id, name string
	ids      []string // accepted model ids, oldest first
	written  map[string]*openfgav1.AuthorizationModel
	refs     map[string]*rm.Model
	tuples   []rm.Tuple
}

func (s *c17Store) latest() string {
	if len(s.ids) == 0 {
		return ""
	}
	return s.ids[len(s.ids)-1]
}

func c17Exec(t *testing.T, sc *gen.Scenario, trace bool) *harness.Outcome {
	return runBubble(t, sc, trace, func(e *Env) {
		var opts []server.OpenFGAServiceV1Option
		if sc.Knob("caches", 0) == 1 {
			co, _ := cacheOpts(e, sc)
			opts = append(opts, co...)
		}
		s, err := e.NewServer(opts...)
		if err != nil {
			e.Out.Infra = "server: " + err.Error()
			return
		}
		bg := context.Background()
		models := []*rm.Model{sc.Model}
		for _, v := range sc.Models {
			if v != nil {
				if _, err := typesystem.NewAndValidate(bg, v.ToProto()); err != nil {
					v = nil
				}
			}
			if v == nil {
				v = sc.Model
			}
			models = append(models, v)
		}
		// store 1 starts with the scenario's model and tuples (Setup); store 2 starts empty of models
		st1 := &c17Store{id: e.StoreID, name: "S1", ids: []string{e.ModelID}, written: map[string]*openfgav1.AuthorizationModel{e.ModelID: e.Model}, refs: map[string]*rm.Model{e.ModelID: sc.Model}, tuples: sc.Tuples}
		id2 := e.NewULID(200)
		e.Run.Name(id2, "S2")
		if _, err := e.Mem.CreateStore(bg, &openfgav1.Store{Id: id2, Name: "s2"}); err != nil {
			e.Out.Infra = "create store: " + err.Error()
			return
		}
		if err := e.WriteTuplesRawTo(id2, sc.Tuples); err != nil {
			e.Out.Infra = "tuples: " + err.Error()
			return
		}
		st2 := &c17Store{id: id2, name: "S2", written: map[string]*openfgav1.AuthorizationModel{}, refs: map[string]*rm.Model{}, tuples: sc.Tuples}
		stores := []*c17Store{st1, st2}
		nModel := 0
		writeModel := func(ctx context.Context, st *c17Store, pm *openfgav1.AuthorizationModel) (string, error) {
			resp, err := s.WriteAuthorizationModel(ctx, &openfgav1.WriteAuthorizationModelRequest{StoreId: st.id, SchemaVersion: pm.GetSchemaVersion(), TypeDefinitions: pm.GetTypeDefinitions(), Conditions: pm.GetConditions()})
			if err != nil {
				return "", err
			}
			return resp.GetAuthorizationModelId(), nil
		}
		accept := func(i int, st *c17Store, id string, pm *openfgav1.AuthorizationModel, ref *rm.Model) bool {
			nModel++
			e.Run.Name(id, fmt.Sprintf("W%d", nModel))
			for _, old := range st.ids {
				if !(id > old) {
					e.Violate("model_id_not_increasing", "", "op %d: WriteAuthorizationModel in %s returned id %s which is not greater than the earlier id %s", i, st.name, id, old)
					return false
				}
			}
			st.ids = append(st.ids, id)
			st.written[id] = pm
			st.refs[id] = ref
			simrt.Probe("models_written")
			return true
		}
		sameModel := func(a, b *openfgav1.AuthorizationModel) bool {
			if a.GetSchemaVersion() != b.GetSchemaVersion() || len(a.GetTypeDefinitions()) != len(b.GetTypeDefinitions()) || len(a.GetConditions()) != len(b.GetConditions()) {
				return false
			}
			for i, td := range a.GetTypeDefinitions() {
				o := b.GetTypeDefinitions()[i]
				if td.GetType() != o.GetType() || len(td.GetRelations()) != len(o.GetRelations()) {
					return false
				}
				for name, rw := range td.GetRelations() {
					if !proto.Equal(rw, o.GetRelations()[name]) {
						return false
					}
					x, y := td.GetMetadata().GetRelations()[name].GetDirectlyRelatedUserTypes(), o.GetMetadata().GetRelations()[name].GetDirectlyRelatedUserTypes()
					if len(x) != len(y) {
						return false
					}
					for k := range x {
						if !proto.Equal(x[k], y[k]) {
							return false
						}
					}
				}
			}
			for name, c := range a.GetConditions() {
				o := b.GetConditions()[name]
				if o == nil || c.GetExpression() != o.GetExpression() || len(c.GetParameters()) != len(o.GetParameters()) {
					return false
				}
			}
			return true
		}
		// judge a model-less answer against the reference under each admissible model id
		judgeLatest := func(i int, st *c17Store, rq gen.Request, a anyAns, admissible []string) {
			if len(admissible) == 0 || (len(admissible) == 1 && admissible[0] == "") {
				if !a.err {
					e.Violate("answer_without_model", "kind="+rq.Kind, "op %d: model-less %s in %s, which has no model, was answered: %s", i, rq.Kind, st.name, a.s)
				}
				return
			}
			var last *harness.Violation
			savedModel := sc.Model
			defer func() { sc.Model = savedModel }()
			for _, id := range admissible {
				if id == "" {
					if a.err {
						return
					}
					continue
				}
				ref := st.refs[id]
				ambiguous := false
				for _, t := range st.tuples {
					if ref.AmbiguousCondShape(t) {
						ambiguous = true // validator and documentation disagree about such tuples (C18's business)
					}
				}
				if ambiguous {
					simrt.Probe("ambiguous_condition_shape_under_new_model")
					return
				}
				if a.err {
					if len(rm.NewState(ref, st.tuples).Unevaluable(rq.Ctx)) > 0 {
						return
					}
					// a relation or type the request names may not exist in this model: then an error is right
					if ref.Rel(rm.ObjType(rq.Obj), rq.Rel) == nil && ref.Rel(rq.Type, rq.Rel) == nil {
						return
					}
					last = &harness.Violation{Class: "unexpected_error:latest", Sig: "kind=" + rq.Kind, Detail: fmt.Sprintf("op %d: model-less %s %+v in %s failed: %s", i, rq.Kind, brief(rq), st.name, lastErr)}
					continue
				}
				saved := e.Out.Violation
				e.Out.Violation = nil
				sc.Model = ref
				stt := rm.NewState(ref, st.tuples)
				switch rq.Kind {
				case "check":
					e.JudgeCheck(st.name, rq, stt, a.s == "true", nil, false)
				case "listobjects":
					var got []string
					if a.s != "" {
						got = strings.Split(a.s, ",")
					}
					e.JudgeListObjects(st.name, rq, stt, got, nil, false, 0, false)
				}
				v := e.Out.Violation
				e.Out.Violation = saved
				if v == nil {
					return
				}
				if last != nil {
					// keep the shape discriminators found under the other admissible model(s): the answer
					// may have been computed under any of them
					for _, tok := range strings.Fields(last.Sig) {
						if !strings.Contains(v.Sig, tok) {
							v.Sig += " " + tok
						}
					}
				}
				last = v
			}
			if last != nil {
				var names []string
				for _, id := range admissible {
					names = append(names, e.Run.Canon(id))
				}
				last.Sig += " model_less"
				last.Detail = fmt.Sprintf("op %d: model-less request in %s (admissible models %v): ", i, st.name, names) + last.Detail
				e.Out.Violation = last
			}
		}
		for i, op := range sc.Ops {
			st := stores[op.Store%2]
			rid := fmt.Sprintf("op%d", i)
			ctx, cancel := context.WithTimeout(simrt.WithReq(context.Background(), rid), 10*time.Second)
			switch op.Kind {
			case "sleep":
				time.Sleep(time.Duration(op.Dur))
			case "wmodel":
				ref := models[op.Model%len(models)]
				pm := ref.ToProto()
				before := firedTotal(e.DS.Fired())
				id, err := writeModel(ctx, st, pm)
				e.Run.Log("wmodel", fmt.Sprintf("op%d %s m%d err=%v", i, st.name, op.Model, err != nil))
				if err != nil {
					if firedTotal(e.DS.Fired()) == before {
						e.Violate("valid_model_rejected", "", "op %d: WriteAuthorizationModel of a model the validator accepts failed in %s: %v", i, st.name, err)
					}
					break
				}
				e.Out.Evals++
				accept(i, st, id, pm, ref)
			case "wbroken":
				base := models[op.Model%len(models)].ToProto()
				pm := breakModel(base, op.S, op.N)
				if pm == nil {
					break
				}
				nBefore := len(st.ids)
				id, err := writeModel(ctx, st, pm)
				e.Out.Evals++
				e.Run.Log("wbroken", fmt.Sprintf("op%d %s %s err=%v", i, st.name, op.S, err != nil))
				if err == nil {
					e.Violate("invalid_model_accepted", "breakage="+op.S, "op %d: WriteAuthorizationModel accepted a model broken by %q in %s (id %s)", i, op.S, st.name, id)
					break
				}
				_ = nBefore
				simrt.Probe("broken_models_rejected")
			case "rmodels":
				var got []string
				token := ""
				for page := 0; page < 50; page++ {
					resp, err := s.ReadAuthorizationModels(ctx, &openfgav1.ReadAuthorizationModelsRequest{StoreId: st.id, ContinuationToken: token})
					if err != nil {
						e.Violate("unexpected_error:readmodels", "", "op %d: ReadAuthorizationModels(%s): %v", i, st.name, err)
						break
					}
					for _, m := range resp.GetAuthorizationModels() {
						got = append(got, m.GetId())
					}
					token = resp.GetContinuationToken()
					if token == "" {
						break
					}
				}
				if e.Out.Violation != nil {
					break
				}
				e.Out.Evals++
				var want []string
				for k := len(st.ids) - 1; k >= 0; k-- {
					want = append(want, st.ids[k])
				}
				if strings.Join(got, ",") != strings.Join(want, ",") {
					e.Violate("models_list_differs", "", "op %d: ReadAuthorizationModels(%s) returned %v, expected newest first %v", i, st.name, e.Run.CanonAll(fmt.Sprint(got)), e.Run.CanonAll(fmt.Sprint(want)))
				}
			case "rmodel":
				if len(st.ids) == 0 {
					break
				}
				id := st.ids[op.N%len(st.ids)]
				resp, err := s.ReadAuthorizationModel(ctx, &openfgav1.ReadAuthorizationModelRequest{StoreId: st.id, Id: id})
				e.Out.Evals++
				if err != nil {
					e.Violate("unexpected_error:readmodel", "", "op %d: ReadAuthorizationModel(%s, %s): %v", i, st.name, e.Run.Canon(id), err)
					break
				}
				if resp.GetAuthorizationModel().GetId() != id || !sameModel(st.written[id], resp.GetAuthorizationModel()) {
					e.Violate("model_changed", "", "op %d: ReadAuthorizationModel(%s, %s) returned a model different from the one written:\nwritten: %v\nread:    %v", i, st.name, e.Run.Canon(id), st.written[id], resp.GetAuthorizationModel())
				}
				// the other store must not know this id
				other := stores[(op.Store+1)%2]
				if _, known := other.written[id]; !known {
					if _, err := s.ReadAuthorizationModel(ctx, &openfgav1.ReadAuthorizationModelRequest{StoreId: other.id, Id: id}); err == nil {
						e.Violate("model_visible_in_other_store", "", "op %d: model %s of %s can be read through %s", i, e.Run.Canon(id), st.name, other.name)
					}
				}
			case "latest":
				targets := []*c17Store{st}
				if op.N == 1 {
					targets = stores
				}
				res := make([]anyAns, len(targets))
				done := make(chan struct{}, len(targets))
				for k, tst := range targets {
					k, tst := k, tst
					e.Run.Go(fmt.Sprintf("op%d.%s", i, tst.name), func() {
						rq := *op.Req
						rq.ModelID = "-"
						c2, cancel2 := context.WithTimeout(simrt.WithReq(context.Background(), fmt.Sprintf("op%d.%s", i, tst.name)), 10*time.Second)
						res[k] = e.issue(c2, s, tst.id, rq)
						cancel2()
						done <- struct{}{}
					})
				}
				for range targets {
					<-done
				}
				for k, tst := range targets {
					e.Out.Evals++
					e.Run.Log("resp", fmt.Sprintf("op%d %s latest %v", i, tst.name, res[k]))
					if e.Out.Violation == nil && !e.Hung {
						judgeLatest(i, tst, *op.Req, res[k], []string{tst.latest()})
					}
				}
			case "race":
				ref := models[op.Model%len(models)]
				pm := ref.ToProto()
				prev := st.latest()
				nReq := op.N
				res := make([]anyAns, nReq)
				done := make(chan struct{}, nReq+1)
				var newID string
				var werr error
				before := firedTotal(e.DS.Fired())
				e.Run.Go(fmt.Sprintf("op%d.w", i), func() {
					newID, werr = writeModel(ctx, st, pm)
					done <- struct{}{}
				})
				for k := 0; k < nReq; k++ {
					k := k
					e.Run.Go(fmt.Sprintf("op%d.r%d", i, k), func() {
						rq := *op.Req
						rq.ModelID = "-"
						c2, cancel2 := context.WithTimeout(simrt.WithReq(context.Background(), fmt.Sprintf("op%d.r%d", i, k)), 10*time.Second)
						res[k] = e.issue(c2, s, st.id, rq)
						cancel2()
						done <- struct{}{}
					})
				}
				for k := 0; k < nReq+1; k++ {
					<-done
				}
				simrt.Probe("write_read_races")
				adm := []string{prev}
				if werr == nil {
					if !accept(i, st, newID, pm, ref) {
						break
					}
					adm = append(adm, newID)
				} else if firedTotal(e.DS.Fired()) == before {
					e.Violate("valid_model_rejected", "", "op %d: WriteAuthorizationModel of a model the validator accepts failed in %s: %v", i, st.name, werr)
					break
				}
				for k := 0; k < nReq && e.Out.Violation == nil && !e.Hung; k++ {
					e.Out.Evals++
					judgeLatest(i, st, *op.Req, res[k], adm)
				}
				// and once the write has returned, the new model is the only admissible one
				if werr == nil && e.Out.Violation == nil && !e.Hung {
					rq := *op.Req
					rq.ModelID = "-"
					a := e.issue(ctx, s, st.id, rq)
					e.Out.Evals++
					judgeLatest(i, st, *op.Req, a, []string{newID})
					if e.Out.Violation != nil {
						e.Out.Violation.Sig += " right_after_write"
					}
				}
			}
			cancel()
			if e.Out.Violation != nil || e.Hung {
				return
			}
		}
		e.Out.NonTrivial = e.Out.Evals > 0 && nModel > 0
	})
}

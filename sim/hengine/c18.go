package hengine

import (
	"fmt"
	"sort"
	"strings"
	"testing"
	"time"

	openfgav1 "github.com/openfga/api/proto/openfga/v1"

	"github.com/openfga/openfga/internal/verifsim/gen"
	"github.com/openfga/openfga/internal/verifsim/harness"
	rm "github.com/openfga/openfga/internal/verifsim/refmodel"
	"github.com/openfga/openfga/internal/verifsim/simrt"
)

// C18: tuple validation accepts exactly what the model allows.
//
// Per run: a generated model; 24 candidate tuples — tuples valid for the model and variants of them
// broken in one way each (unknown type / relation, user of a type or shape the relation does not list,
// wildcard or userset on a tupleset relation, wildcard as object, condition the matching restriction
// does not allow, undefined condition, mistyped / undeclared / oversized context, userset pointing at
// itself, malformed strings). Each candidate is (a) written through Server.Write into a store whose
// content is then read back, and (b) passed as a contextual tuple of a Check.
// Oracle: refmodel.WhyInvalid (written from the documentation of C18's rule list); a rejected write
// changes nothing; acceptance as a contextual tuple equals acceptance by Write.
func c18Gen(runSeed uint64, tier string) *gen.Scenario {
	sc := genEngineScenario(runSeed, tier, 2)
	g := gen.New(runSeed ^ 0xc18)
	m := sc.Model
	base := g.Tuples(m, 30, 0)
	var cands []rm.Tuple
	typeNames := []string{}
	for _, t := range m.Types {
		typeNames = append(typeNames, t.Name)
	}
	relNames := map[string][]string{}
	for _, t := range m.Types {
		for _, r := range t.Relations {
			relNames[t.Name] = append(relNames[t.Name], r.Name)
		}
	}
	for _, t := range base {
		if len(cands) >= 24 {
			break
		}
		v := t
		switch g.Intn(16) {
		case 0, 1, 2: // as is
		case 3:
			v.Obj = "nosuchtype:" + rm.ObjID(v.Obj)
		case 4:
			v.Rel = "nosuchrel"
		case 5: // user of some other type / shape
			v.User = gen.Pick(g, typeNames) + ":" + gen.Pick(g, []string{"1", "a", "*"})
		case 6: // userset of some relation
			tn := gen.Pick(g, typeNames)
			if len(relNames[tn]) > 0 {
				v.User = tn + ":1#" + gen.Pick(g, relNames[tn])
			}
		case 7:
			v.Obj = rm.ObjType(v.Obj) + ":*"
		case 8: // another condition (or none)
			if len(m.Conds) > 0 && g.Chance(0.7) {
				v.Cond = gen.Pick(g, m.Conds).Name
				v.Ctx = nil
			} else {
				v.Cond, v.Ctx = "", nil
			}
		case 9:
			v.Cond, v.Ctx = "nosuchcondition", map[string]any{"x": 1.0}
		case 10: // mistyped or undeclared context
			if v.Cond != "" {
				if g.Chance(0.5) {
					v.Ctx = map[string]any{"undeclared_parameter": "v"}
				} else if c := m.Cond(v.Cond); c != nil {
					v.Ctx = map[string]any{}
					for p, typ := range c.Params {
						if typ == "string" {
							v.Ctx[p] = 12.0
						} else {
							v.Ctx[p] = "not-a-" + typ
						}
					}
				}
			}
		case 11: // oversized context
			if v.Cond != "" {
				if c := m.Cond(v.Cond); c != nil {
					for p, typ := range c.Params {
						if typ == "string" {
							v.Ctx = map[string]any{p: strings.Repeat("x", 40000)}
						}
					}
				}
			}
		case 12:
			v.User = v.Obj + "#" + v.Rel
		case 13:
			v.User = gen.Pick(g, []string{"user", "user:", ":a", "user:a:b", "user:a#", "#member", "user: a", "user:*#member", ""})
		case 14:
			v.Obj = gen.Pick(g, []string{"doc", ":1", "doc:1:2", "doc:1#viewer", "doc: 1", ""})
		case 15: // userset whose relation does not exist on its type
			v.User = rm.ObjType(v.Obj) + ":1#nosuchrel"
		}
		cands = append(cands, v)
	}
	sc.Tuples = nil
	for _, c := range cands {
		c := c
		sc.Ops = append(sc.Ops, gen.Op{Kind: "cand", Writes: []rm.Tuple{c}})
	}
	sc.Knobs["level"] = 1
	return sc
}

const c18MaxContextBytes = 32 * 1024

func c18Expect(m *rm.Model, t rm.Tuple) string {
	for _, s := range []string{t.Obj, t.User} {
		if s == "" || strings.ContainsAny(s, " ") {
			return "malformed string"
		}
	}
	if strings.Count(t.Obj, ":") != 1 || strings.Contains(t.Obj, "#") || strings.HasPrefix(t.Obj, ":") || strings.HasSuffix(t.Obj, ":") {
		return "malformed object"
	}
	up := strings.SplitN(t.User, "#", 2)
	if strings.Count(up[0], ":") != 1 || strings.HasPrefix(up[0], ":") || strings.HasSuffix(up[0], ":") || (len(up) == 2 && up[1] == "") {
		return "malformed user"
	}
	if strings.HasSuffix(up[0], ":*") && len(up) == 2 {
		return "malformed user"
	}
	if why := m.WhyInvalid(t, true); why != "" {
		return why
	}
	if t.Cond != "" {
		n := 0
		for k, v := range t.Ctx {
			n += len(k) + len(fmt.Sprint(v))
		}
		if n > c18MaxContextBytes {
			return "context too large"
		}
	}
	return ""
}

func c18Exec(t *testing.T, sc *gen.Scenario, trace bool) *harness.Outcome {
	return runBubble(t, sc, trace, func(e *Env) {
		s, err := e.NewServer()
		if err != nil {
			e.Out.Infra = "server: " + err.Error()
			return
		}
		dump := func() string {
			d, _ := e.dumpStore(e.StoreID)
			return d
		}
		var probe *gen.Request
		if len(sc.Requests) > 0 {
			probe = &sc.Requests[0]
		}
		for i, op := range sc.Ops {
			c := op.Writes[0]
			why := c18Expect(sc.Model, c)
			before := dump()
			ctx, cancel := reqCtx(i, ".write", 10*time.Second)
			_, werr := s.Write(ctx, &openfgav1.WriteRequest{StoreId: e.StoreID, AuthorizationModelId: e.ModelID, Writes: &openfgav1.WriteRequestWrites{TupleKeys: []*openfgav1.TupleKey{c.TupleKey()}}})
			cancel()
			after := dump()
			e.Out.Evals++
			e.Run.Log("cand", fmt.Sprintf("op%d %s expect=%q write_err=%v", i, c.String(), why, werr != nil))
			sig := "via=write reason=" + strings.ReplaceAll(firstNonEmpty(why, "valid"), " ", "_")
			if sc.Model.AmbiguousCondShape(c) {
				sig += " condition_allowed_for_another_shape_of_the_user_type"
			}
			switch {
			case why == "" && werr != nil:
				e.Violate("valid_tuple_rejected", sig, "op %d: Write rejected %s, which the model allows (%s): %v", i, c.String(), relText(sc.Model, c), werr)
				return
			case why != "" && werr == nil:
				e.Violate("invalid_tuple_accepted", sig, "op %d: Write accepted %s, which must be rejected: %s (%s)", i, c.String(), why, relText(sc.Model, c))
				return
			}
			if werr != nil && after != before {
				e.Violate("rejected_write_changed_store", sig, "op %d: the rejected write of %s changed the store: before %s after %s", i, c.String(), before, after)
				return
			}
			// (b) the same candidate as a contextual tuple
			if probe != nil {
				rq := *probe
				rq.CtxTuples = []rm.Tuple{c}
				ctx, cancel := reqCtx(i, ".ctx", 10*time.Second)
				_, cerr := e.SrvCheck(ctx, s, rq)
				cancel()
				e.Out.Evals++
				rejected := cerr != nil && Classify(cerr) == ErrValidation
				if (werr != nil) != rejected && !(cerr != nil && !rejected) {
					// the duplicate-of-a-stored-tuple case: a contextual tuple equal to a stored one is fine
					if werr == nil || !strings.Contains(werr.Error(), "already exists") {
						e.Violate("contextual_validation_differs", "via=contextual reason="+strings.ReplaceAll(firstNonEmpty(why, "valid"), " ", "_"), "op %d: %s was %s by Write (%v) but %s as a contextual tuple (%v)", i, c.String(), acc(werr == nil), werr, acc(!rejected), cerr)
						return
					}
				}
			}
			// keep the store small: remove what was written
			if werr == nil {
				ctx, cancel := reqCtx(i, ".del", 10*time.Second)
				_, _ = s.Write(ctx, &openfgav1.WriteRequest{StoreId: e.StoreID, AuthorizationModelId: e.ModelID, Deletes: &openfgav1.WriteRequestDeletes{TupleKeys: []*openfgav1.TupleKeyWithoutCondition{{Object: c.Obj, Relation: c.Rel, User: c.User}}}})
				cancel()
			}
		}
		e.Out.NonTrivial = e.Out.Evals > 0
	})
}

func acc(b bool) string {
	if b {
		return "accepted"
	}
	return "rejected"
}

func firstNonEmpty(a, b string) string {
	if a != "" {
		return a
	}
	return b
}

func relText(m *rm.Model, t rm.Tuple) string {
	rel := m.Rel(rm.ObjType(t.Obj), t.Rel)
	if rel == nil {
		return "relation not defined"
	}
	var rs []string
	for _, r := range rel.Restrictions {
		s := r.Type
		if r.Wildcard {
			s += ":*"
		}
		if r.Relation != "" {
			s += "#" + r.Relation
		}
		if r.Cond != "" {
			s += " with " + r.Cond
		}
		rs = append(rs, s)
	}
	sort.Strings(rs)
	return fmt.Sprintf("%s#%s: [%s] tupleset=%v", rm.ObjType(t.Obj), t.Rel, strings.Join(rs, ", "), m.IsTupleset(rm.ObjType(t.Obj), t.Rel))
}

var _ = simrt.Probe

package hengine

import (
	"context"
	"errors"
	"fmt"
	"runtime"
	"sort"
	"strings"
	"sync"
	"testing"
	"testing/synctest"
	"time"

	"go.uber.org/zap"

	"github.com/openfga/openfga/internal/verifsim/gen"
	"github.com/openfga/openfga/internal/verifsim/harness"
	rm "github.com/openfga/openfga/internal/verifsim/refmodel"
	"github.com/openfga/openfga/internal/verifsim/simrt"
	"github.com/openfga/openfga/internal/verifsim/simstore"
	"github.com/openfga/openfga/internal/modelgraph"
	"github.com/openfga/openfga/internal/planner"
	"github.com/openfga/openfga/pkg/logger"
	"github.com/openfga/openfga/pkg/server"
	"github.com/openfga/openfga/pkg/server/commands"
	"github.com/openfga/openfga/pkg/tuple"
)

// runBubble is the common frame: build Env, run body, close.
func runBubble(t *testing.T, sc *gen.Scenario, trace bool, body func(e *Env)) *harness.Outcome {
	out := &harness.Outcome{Shape: ModelShape(sc.Model)}
	hung := false
	defer func() {
		// a hang in a run with injected faults: does the same scenario (same seed, hence the same ids,
		// labels and schedule up to the first fault) hang without them? The answer is part of the
		// signature, so that a hang that needs no fault (finding F12) and one that needs the fault are
		// told apart.
		if !hung || out.Violation == nil || out.Violation.Class != "hang" || sc.Knob("_recheck", 0) == 1 {
			return
		}
		if sc.Knob("faults", 0) == 0 {
			out.Violation.Sig += " faults_involved=no"
			return
		}
		saved := map[string]int64{}
		for k, v := range sc.Knobs {
			saved[k] = v
		}
		sc.Knobs["faults"], sc.Knobs["_recheck"] = 0, 1
		again := runBubble(t, sc, false, body)
		sc.Knobs = saved
		if again.Violation != nil && again.Violation.Class == "hang" {
			out.Violation.Sig += " faults_involved=no"
		} else {
			out.Violation.Sig += " faults_involved=yes"
		}
	}()
	msg := harness.Bubble(t, func(t *testing.T) {
		e := Setup(t, sc, trace, out)
		if e == nil {
			simrt.End()
			return
		}
		func() {
			defer e.Close()
			body(e)
		}()
		if e.DS.BudgetExceeded() {
			out.Violation, out.Infra = nil, ""
			out.Skip = "compute_budget_exceeded"
			return
		}
		if e.Hung {
			hung = true
			return
		}
		// census: after the server is closed and a generous virtual wait, nothing that was started
		// inside this bubble may still exist (C20). Other checks only count it.
		time.Sleep(30 * time.Second)
		synctest.Wait()
		if n := e.DS.OpenIters.Load(); n != 0 && sc.Property == "C20" && out.Violation == nil {
			out.Violation = &harness.Violation{Class: "iterator_leak", Sig: "open=" + e.DS.OpenIterSigs(), Detail: fmt.Sprintf("%d storage iterators opened during the run were never stopped (30 s virtual after the last call returned and the server was closed): %s", n, e.DS.OpenIterSigs())}
		}
		if leaked := LeakedGoroutines(); leaked != "" {
			out.Leak = leaked
			if out.Probes == nil {
				out.Probes = map[string]int64{}
			}
			out.Probes["runs_with_leaked_goroutines"]++
			if sc.Property == "C21" && out.Violation == nil && strings.Contains(leaked, "listobjects/pipeline") {
				out.Violation = &harness.Violation{Class: "pipeline_teardown_incomplete", Sig: leakSig(leaked), Detail: "pipeline goroutines still blocked 30 s (virtual) after every call returned and the server was closed:\n" + leaked}
			}
			if sc.Property == "C20" && out.Violation == nil {
				out.Violation = &harness.Violation{Class: "goroutine_leak", Sig: leakSig(leaked), Detail: "goroutines still blocked 30 s (virtual) after every call returned and the server was closed:\n" + leaked}
			}
		}
	})
	if out.Leak != "" && strings.Contains(msg, "deadlock") {
		msg = ""
	}
	if msg != "" && out.Infra == "" && out.Violation == nil && out.Skip == "" {
		if strings.Contains(msg, "deadlock") {
			out.Infra = "bubble deadlock (goroutines left blocked at end of run): " + msg
		} else {
			out.Infra = "bubble: " + msg
		}
	}
	return out
}

// LeakedGoroutines lists bubble goroutines other than the caller and the synctest root (summarised
// stacks), or "" if there are none.
func LeakedGoroutines() string {
	buf := make([]byte, 1<<20)
	n := runtime.Stack(buf, true)
	var out []string
	mine := ""
	for i, g := range strings.Split(string(buf[:n]), "\n\n") {
		head, _, _ := strings.Cut(g, "\n")
		if i == 0 {
			// the caller: remember which bubble we are in (goroutines of earlier, abandoned bubbles
			// of this process are not this run's business)
			if a := strings.Index(head, "synctest bubble "); a >= 0 {
				mine = strings.TrimRight(head[a:], "]:")
			}
			continue
		}
		if mine == "" || !strings.Contains(head, mine+"]") || strings.Contains(head, "synctest.Run") {
			continue
		}
		if strings.Contains(g, "testing/synctest.testingSynctestTest") {
			continue
		}
		var keep []string
		for _, l := range strings.Split(g, "\n")[1:] {
			if strings.HasPrefix(l, "created by") {
				l = strings.TrimPrefix(l, "created by ")
				if j := strings.Index(l, " in goroutine"); j > 0 {
					l = l[:j]
				}
				keep = append(keep, "[created by "+strings.TrimPrefix(l, "github.com/openfga/openfga/")+"]")
				continue
			}
			if strings.HasPrefix(l, "\t") {
				continue
			}
			if j := strings.LastIndex(l, "("); j > 0 {
				l = l[:j]
			}
			l = strings.TrimPrefix(l, "github.com/openfga/openfga/")
			if len(keep) < 5 {
				keep = append(keep, l)
			}
		}
		state := head
		if a := strings.Index(head, "["); a >= 0 {
			state = head[a:]
		}
		out = append(out, "  "+state+" "+strings.Join(keep, " <- "))
	}
	sort.Strings(out)
	if len(out) > 12 {
		out = append(out[:12], fmt.Sprintf("  ... %d more", len(out)-12))
	}
	return strings.Join(out, "\n")
}

func leakSig(leaked string) string {
	var tags []string
	for _, t := range []string{"pipeline", "track.(*StatusPool)", "worker.", "mpmc", "sharediterator", "cached", "graph.", "reverseexpand", "listusers", "cachecontroller", "theine", "planner"} {
		if strings.Contains(leaked, t) {
			tags = append(tags, t)
		}
	}
	return "leaked_in=" + strings.Join(tags, ",")
}

func reqCtx(i int, suffix string, d time.Duration) (context.Context, context.CancelFunc) {
	if r := simrt.Cur(); r != nil {
		d = r.Unique(d) // concurrent twins must not share a deadline instant
	}
	return context.WithTimeout(simrt.WithReq(context.Background(), fmt.Sprintf("r%d%s", i, suffix)), d)
}

// ---------------------------------------------------------------- C05 ListObjects

func c05Gen(runSeed uint64, tier string) *gen.Scenario {
	sc := genEngineScenario(runSeed, tier, 0)
	g := gen.New(runSeed ^ 0xc05)
	sc.Requests = g.ListObjectsRequests(sc.Model, 8, [3]float64{0.7, 0.1, 0.2})
	graded := g.Chance(0.12)
	if graded {
		// directed shape: several operands of one set operator with result sets of different sizes
		sc.Model, sc.Tuples, sc.Requests = g.GradedSets()
	}
	stored := map[string]bool{}
	for _, t := range sc.Tuples {
		stored[t.Key()] = true
	}
	for i := range sc.Requests {
		if !graded && g.Chance(0.15) {
			for _, t := range g.Tuples(sc.Model, 1+g.Intn(2), 0) {
				if sc.Model.ValidForWrite(t) && !sc.Model.AmbiguousCondShape(t) && !stored[t.Key()] {
					sc.Requests[i].CtxTuples = append(sc.Requests[i].CtxTuples, t)
				}
			}
		}
	}
	sc.Knobs["lo_engine"] = int64(g.Intn(4))
	sc.Knobs["lo_limit"] = []int64{0, 0, 1, 2, 3}[g.Intn(5)]
	sc.Knobs["streamed"] = int64(g.Intn(2))
	sc.Knobs["chunk"] = []int64{0, 1, 2}[g.Intn(3)]
	sc.Knobs["bufcap"] = []int64{0, 2, 4}[g.Intn(3)]
	sc.Knobs["numprocs"] = []int64{0, 1, 2, 3}[g.Intn(4)]
	if g.Chance(0.3) {
		sc.Knobs["faults"] = int64(simstore.FaultOpenErr | simstore.FaultIterErr)
	}
	if g.Chance(0.15) {
		sc.Knobs["lo_deadline_us"] = int64(20 + g.Intn(200))
		sc.Knobs["max_latency_ns"] = 60000
	}
	return sc
}

func loServerOpts(sc *gen.Scenario) []server.OpenFGAServiceV1Option {
	opts := []server.OpenFGAServiceV1Option{server.WithExperimentals(Experimentals(sc)...)}
	if l := sc.Knob("lo_limit", 0); l > 0 {
		opts = append(opts, server.WithListObjectsMaxResults(uint32(l)))
	}
	if v := sc.Knob("chunk", 0); v > 0 {
		opts = append(opts, server.WithListObjectsChunkSize(int(v)))
	}
	if v := sc.Knob("bufcap", 0); v > 0 {
		opts = append(opts, server.WithListObjectsBufferCapacity(int(v)))
	}
	if v := sc.Knob("numprocs", 0); v > 0 {
		opts = append(opts, server.WithListObjectsNumProcs(int(v)))
	}
	if v := sc.Knob("lo_deadline_us", 0); v > 0 {
		opts = append(opts, server.WithListObjectsDeadline(time.Duration(v)*time.Microsecond))
	}
	return opts
}

func c05Exec(t *testing.T, sc *gen.Scenario, trace bool) *harness.Outcome {
	return runBubble(t, sc, trace, func(e *Env) {
		s, err := e.NewServer(loServerOpts(sc)...)
		if err != nil {
			e.Out.Infra = "server: " + err.Error()
			return
		}
		faulty := sc.Knob("faults", 0) != 0
		limit := int(sc.Knob("lo_limit", 0))
		if sc.Knob("streamed", 0) == 1 {
			limit = 0 // the result limit is a property of the unary API; the stream is unbounded
		}
		deadline := 3 * time.Second
		if v := sc.Knob("lo_deadline_us", 0); v > 0 {
			deadline = time.Duration(v) * time.Microsecond
		}
		for i, rq := range sc.Requests {
			ctx, cancel := reqCtx(i, "", 10*time.Second)
			t0 := time.Now()
			got, err := e.SrvListObjects(ctx, s, rq, sc.Knob("streamed", 0) == 1)
			el := time.Since(t0)
			cancel()
			e.Run.Log("resp", fmt.Sprintf("r%d n=%d err=%v", i, len(got), err != nil))
			truncated := el >= deadline
			if truncated {
				simrt.Probe("deadline_truncated")
			}
			streamedErr := sc.Knob("streamed", 0) == 1 && err != nil
			if streamedErr && len(got) > 0 {
				// a streamed response may have delivered objects before failing: they must be permitted
				e.SigExtra = " streamed_error_after_objects"
				e.JudgeListObjects("srv", rq, stateFor(sc, rq), got, nil, true, limit, true)
				e.SigExtra = ""
			} else {
				e.JudgeListObjects("srv", rq, stateFor(sc, rq), got, err, faulty, limit, truncated)
			}
			if e.Out.Violation != nil {
				return
			}
		}
		e.Out.NonTrivial = len(sc.Tuples) > 0 && e.Out.Evals > 0
	})
}

// ---------------------------------------------------------------- C06 ListUsers

func c06Gen(runSeed uint64, tier string) *gen.Scenario {
	g := gen.New(runSeed ^ 0xc06)
	wild := g.Chance(0.35)
	sc := genEngineScenarioWith(runSeed, tier, 0, func(o *gen.ModelOpts) {
		if wild {
			o.Wildcard, o.NoWildcard = 0.5, false
		}
	})
	if wild {
		// wildcards on both sides of exclusions and next to named users
		have := map[string]bool{}
		for _, t := range sc.Tuples {
			have[t.Key()] = true
		}
		for _, t := range g.WildcardTuples(sc.Model, 0.6) {
			if !have[t.Key()] && !sc.Model.AmbiguousCondShape(t) {
				have[t.Key()] = true
				sc.Tuples = append(sc.Tuples, t)
			}
		}
	}
	sc.Requests = g.ListUsersRequests(sc.Model, 8)
	if g.Chance(0.25) {
		sc.Knobs["faults"] = int64(simstore.FaultOpenErr | simstore.FaultIterErr)
	}
	return sc
}

func c06Exec(t *testing.T, sc *gen.Scenario, trace bool) *harness.Outcome {
	return runBubble(t, sc, trace, func(e *Env) {
		s, err := e.NewServer()
		if err != nil {
			e.Out.Infra = "server: " + err.Error()
			return
		}
		faulty := sc.Knob("faults", 0) != 0
		for i, rq := range sc.Requests {
			ctx, cancel := reqCtx(i, "", 10*time.Second)
			got, err := e.SrvListUsers(ctx, s, rq)
			cancel()
			e.Run.Log("resp", fmt.Sprintf("r%d n=%d err=%v", i, len(got), err != nil))
			e.JudgeListUsers("srv", rq, stateFor(sc, rq), got, err, faulty)
			if e.Out.Violation != nil {
				return
			}
		}
		e.Out.NonTrivial = len(sc.Tuples) > 0 && e.Out.Evals > 0
	})
}

// ---------------------------------------------------------------- C07 BatchCheck

func c07Gen(runSeed uint64, tier string) *gen.Scenario {
	sc := genEngineScenario(runSeed, tier, 10)
	g := gen.New(runSeed ^ 0xc07)
	base := sc.Requests
	var batches []gen.Request
	for b := 0; b < 3; b++ {
		var items []gen.Request
		n := 2 + g.Intn(10)
		for i := 0; i < n; i++ {
			it := gen.Pick(g, base)
			it.Kind = "check"
			// near-duplicates: same tuple key, different context / contextual tuples
			switch g.Intn(5) {
			case 0:
				it.Ctx = g.ReqCtx(sc.Model)
			case 1:
				it.CtxTuples = nil
			case 2:
				if len(it.CtxTuples) > 1 {
					ct := append([]rm.Tuple(nil), it.CtxTuples...)
					ct[0], ct[len(ct)-1] = ct[len(ct)-1], ct[0] // reordered contextual tuples
					it.CtxTuples = ct
				}
			}
			items = append(items, it)
		}
		batches = append(batches, gen.Request{Kind: "batch", Items: items})
	}
	if items := g.RepeatedContextualTuple(sc.Model); items != nil && g.Chance(0.5) {
		// one contextual tuple key carried twice with different condition contexts, in every item
		batches = append(batches, gen.Request{Kind: "batch", Items: items})
	}
	sc.Requests = batches
	sc.Knobs["batch_conc"] = []int64{1, 2, 25}[g.Intn(3)]
	sc.Knobs["query_cache"] = int64(g.Intn(2))
	sc.Knobs["level"] = 1
	if g.Chance(0.25) {
		sc.Knobs["faults"] = int64(simstore.FaultOpenErr | simstore.FaultIterErr)
		// half of the injected errors look like a driver timeout (they wrap context.DeadlineExceeded
		// while the request itself is alive): one item's failure must stay that item's failure
		sc.Knobs["fault_timeouts"] = int64(g.Intn(2))
	}
	return sc
}

func c07Exec(t *testing.T, sc *gen.Scenario, trace bool) *harness.Outcome {
	return runBubble(t, sc, trace, func(e *Env) {
		opts := []server.OpenFGAServiceV1Option{
			server.WithMaxConcurrentChecksPerBatchCheck(uint32(sc.Knob("batch_conc", 25))),
			server.WithExperimentals(Experimentals(sc)...),
		}
		if sc.Knob("query_cache", 0) == 1 {
			opts = append(opts, server.WithCheckQueryCacheEnabled(true), server.WithCheckCache(simstore.NewCache(e.Run)), server.WithCheckQueryCacheTTL(time.Minute))
		}
		s, err := e.NewServer(opts...)
		if err != nil {
			e.Out.Infra = "server: " + err.Error()
			return
		}
		faulty := sc.Knob("faults", 0) != 0
		for bi, b := range sc.Requests {
			ctx, cancel := reqCtx(bi, "", 10*time.Second)
			timeoutsBefore := e.DS.TimeoutIterErrs()
			res, n, err := e.SrvBatchCheck(ctx, s, b)
			clientExpired := ctx.Err() != nil // the batch ran into the client's own deadline
			cancel()
			e.Run.Log("resp", fmt.Sprintf("b%d n=%d err=%v", bi, n, err != nil))
			if err != nil {
				if faulty {
					continue
				}
				e.Violate("batch_failed", "err="+errSig(err), "batch %d failed as a whole: %v", bi, err)
				return
			}
			if n != len(b.Items) {
				e.Violate("outcome_count", "", "batch %d: %d outcomes for %d correlation ids", bi, n, len(b.Items))
				return
			}
			for i, it := range b.Items {
				o, ok := res[fmt.Sprintf("i%d", i)]
				if !ok || !o.Present {
					e.Violate("outcome_missing", "", "batch %d: no outcome for correlation id i%d", bi, i)
					return
				}
				var ierr error
				if o.Err != "" {
					ierr = errors.New(o.Err)
				}
				if it.Limit == 77 {
					// items that repeat a contextual tuple key: what such a request means is whatever an
					// individual Check makes of it, and the batch must agree with exactly that
					if ierr != nil {
						continue
					}
					ctx, cancel := reqCtx(bi, fmt.Sprintf(".single%d", i), 10*time.Second)
					single, serr := e.SrvCheck(ctx, s, it)
					cancel()
					e.Out.Evals++
					if serr == nil && single != o.Allowed && !faulty {
						e.Violate("batch_differs_from_individual_check", "repeated_contextual_tuple_key", "batch %d item i%d (%+v): BatchCheck says allowed=%v, the same request as an individual Check says %v", bi, i, it, o.Allowed, single)
						return
					}
					continue
				}
				// an injected fault excuses the item whose evaluation it hit — that item's error names the
				// fault (or is the bare deadline error the engine turns a wrapped one into); any other error
				// — a cancellation nobody asked for, say — is judged as in a fault-free run
				itemFaulty := faulty && (ierr == nil || strings.Contains(o.Err, "sim: injected") || strings.Contains(o.Err, "panic") ||
					(sc.Knob("fault_timeouts", 0) == 1 && strings.Contains(o.Err, "deadline exceeded")) ||
					(clientExpired && (strings.Contains(o.Err, "deadline exceeded") || strings.Contains(o.Err, "context canceled"))))
				if faulty && !itemFaulty {
					e.SigExtra = " item_error_does_not_name_a_fault"
				} else if e.DS.TimeoutIterErrs() > timeoutsBefore {
					// F42: an iterator error that wraps a context error ends the iteration silently
					e.SigExtra = " iterator_error_wrapping_deadline_fired"
				}
				e.JudgeCheck(fmt.Sprintf("batch%d.i%d", bi, i), it, stateFor(sc, it), o.Allowed, ierr, itemFaulty)
				e.SigExtra = ""
				if e.Out.Violation != nil {
					return
				}
			}
		}
		e.Out.NonTrivial = len(sc.Tuples) > 0 && e.Out.Evals > 0
	})
}

// ---------------------------------------------------------------- C02 strategy / tuning independence

type c02cfg struct {
	name                       string
	plan, breadth, maxReads    int64
	opt                        int64
	loEngine, chunk, buf, proc int64
	throttle                   bool
}

func c02Gen(runSeed uint64, tier string) *gen.Scenario {
	sc := genEngineScenario(runSeed, tier, 8)
	g := gen.New(runSeed ^ 0xc02)
	lo := g.ListObjectsRequests(sc.Model, 4, [3]float64{0.8, 0.05, 0.15})
	sc.Requests = append(sc.Requests, lo...)
	if g.Chance(0.04) || gen.Forced("wideexclusion") {
		// directed shape: several hundred object ids streamed in batches by the fast strategies
		sc.Model, sc.Tuples, sc.Requests = g.WideExclusion()
	}
	sc.Knobs["conc"] = []int64{1, 1, 3}[g.Intn(3)]
	sc.Knobs["faults"] = 0
	return sc
}

func c02Configs(e *Env) []c02cfg {
	// Dispatch throttling is only combined with sequential requests: every Check builds its own
	// constant-rate throttler (a ticker), so N concurrent requests own N tickers that fire at the same
	// virtual instant, and the order in which the runtime's timer heap pops equal deadlines did not
	// replay (measured). Concurrency and throttling are each covered, not their product.
	r := e.Run
	cfgs := []c02cfg{
		{name: "default", plan: simstore.PlanDefault, breadth: 25, loEngine: 0},
		{name: "fast", plan: simstore.PlanFast, breadth: 25, loEngine: 1, opt: 1},
		{name: "mixed1", plan: simstore.PlanPerCall, breadth: 2, maxReads: 1, loEngine: 2, chunk: 1, buf: 2, proc: 1},
		{name: "mixed2", plan: simstore.PlanHash, breadth: 1, maxReads: 2, loEngine: 3, chunk: 2, buf: 4, proc: 3, throttle: e.Sc.Knob("conc", 1) <= 1},
	}
	// seed-dependent order and one extra random configuration
	x := c02cfg{name: "rand", plan: int64(r.Pick(4, "c02", "plan")), breadth: []int64{1, 2, 25}[r.Pick(3, "c02", "b")], maxReads: int64(r.Pick(3, "c02", "mr")),
		loEngine: int64(r.Pick(4, "c02", "lo")), chunk: int64(r.Pick(3, "c02", "ch")), buf: []int64{0, 2, 8}[r.Pick(3, "c02", "bu")], proc: int64(r.Pick(4, "c02", "np")), opt: int64(r.Pick(2, "c02", "opt")), throttle: r.Pick(2, "c02", "th") == 1 && e.Sc.Knob("conc", 1) <= 1}
	return append(cfgs, x)
}

type c02ans struct {
	ok      bool // definite answer present
	allowed bool
	objs    string
	err     bool
}

func c02Exec(t *testing.T, sc *gen.Scenario, trace bool) *harness.Outcome {
	return runBubble(t, sc, trace, func(e *Env) {
		cfgs := c02Configs(e)
		answers := make([][]c02ans, len(cfgs))
		for ci, c := range cfgs {
			// per-configuration scenario knobs
			sub := *sc
			sub.Knobs = map[string]int64{}
			for k, v := range sc.Knobs {
				sub.Knobs[k] = v
			}
			sub.Knobs["plan_policy"], sub.Knobs["breadth"], sub.Knobs["max_reads"], sub.Knobs["optimizations"] = c.plan, c.breadth, c.maxReads, c.opt
			sub.Knobs["lo_engine"], sub.Knobs["chunk"], sub.Knobs["bufcap"], sub.Knobs["numprocs"] = c.loEngine, c.chunk, c.buf, c.proc
			e2 := *e
			e2.Sc = &sub
			chk, err := e2.commandChecker()
			if err != nil {
				e.Out.Infra = "resolver: " + err.Error()
				return
			}
			sopts := loServerOpts(&sub)
			if c.throttle {
				sopts = append(sopts,
					server.WithDispatchThrottlingCheckResolverEnabled(true), server.WithDispatchThrottlingCheckResolverFrequency(50*time.Microsecond),
					server.WithDispatchThrottlingCheckResolverThreshold(1), server.WithDispatchThrottlingCheckResolverMaxThreshold(2),
					server.WithListObjectsDispatchThrottlingEnabled(true), server.WithListObjectsDispatchThrottlingFrequency(50*time.Microsecond),
					server.WithListObjectsDispatchThrottlingThreshold(1), server.WithListObjectsDispatchThrottlingMaxThreshold(2))
			}
			srv, err := e2.NewServer(sopts...)
			if err != nil {
				e.Out.Infra = "server: " + err.Error()
				return
			}
			e.cleanup = e2.cleanup
			e.LoEngine = int(c.loEngine)
			answers[ci] = make([]c02ans, len(sc.Requests))
			conc := int(sc.Knob("conc", 1))
			one := func(i int, rq gen.Request, suffix string) c02ans {
				ctx, cancel := reqCtx(i, "."+c.name+suffix, 10*time.Second)
				defer cancel()
				var a c02ans
				if rq.Kind == "listobjects" {
					got, err := e.SrvListObjects(ctx, srv, rq, false)
					e.Run.Log("resp", fmt.Sprintf("%s r%d%s n=%d err=%v", c.name, i, suffix, len(got), err != nil))
					a = c02ans{ok: err == nil, objs: strings.Join(sorted(got), ","), err: err != nil}
					e.JudgeListObjects(c.name, rq, stateFor(sc, rq), got, err, false, 0, false)
				} else {
					var allowed bool
					var err error
					if ci%2 == 0 {
						allowed, err = chk(ctx, rq)
					} else {
						allowed, err = e.SrvCheck(ctx, srv, rq)
					}
					e.Run.Log("resp", fmt.Sprintf("%s r%d%s allowed=%v err=%v", c.name, i, suffix, allowed, err != nil))
					a = c02ans{ok: err == nil, allowed: allowed, err: err != nil}
					e.JudgeCheck(c.name, rq, stateFor(sc, rq), allowed, err, false)
				}
				return a
			}
			if conc <= 1 {
				for i, rq := range sc.Requests {
					answers[ci][i] = one(i, rq, "")
					// repeating a request never changes its answer
					if i%3 == 0 {
						again := one(i, rq, ".again")
						uneval := len(stateFor(sc, rq).Unevaluable(rq.Ctx)) > 0
						if uneval && (again.err || answers[ci][i].err) {
							// with an unevaluable condition in the data, failing and answering are both admissible
							// (C01); only two definite answers can contradict each other
							again = answers[ci][i]
						}
						if again != answers[ci][i] && e.Out.Violation == nil {
							e.Violate("repeat_changes_answer", "config="+c.name, "request %d answered %+v then %+v under configuration %s", i, answers[ci][i], again, c.name)
						}
					}
					if e.Out.Violation != nil {
						return
					}
				}
			} else {
				// all requests, conc copies each, concurrently
				var wg sync.WaitGroup
				var mu sync.Mutex
				res := make([][]c02ans, len(sc.Requests))
				for i, rq := range sc.Requests {
					for k := 0; k < conc; k++ {
						wg.Add(1)
						i, rq, k := i, rq, k
						e.Run.Go(fmt.Sprintf("client-%s-%d-%d", c.name, i, k), func() {
							defer wg.Done()
							a := one(i, rq, fmt.Sprintf(".c%d", k))
							mu.Lock()
							res[i] = append(res[i], a)
							mu.Unlock()
						})
					}
				}
				wg.Wait()
				simrt.Probe("concurrent_batch")
				if e.Out.Violation != nil {
					return
				}
				for i := range res {
					uneval := len(stateFor(sc, sc.Requests[i]).Unevaluable(sc.Requests[i].Ctx)) > 0
					for _, a := range res[i][1:] {
						if uneval && (a.err || res[i][0].err) {
							continue
						}
						if a != res[i][0] {
							e.Violate("concurrent_copies_disagree", "config="+c.name, "request %d: concurrent copies answered %+v and %+v under configuration %s", i, res[i][0], a, c.name)
							return
						}
					}
					answers[ci][i] = res[i][0]
				}
			}
		}
		// cross-configuration equality of definite answers
		for i := range sc.Requests {
			var ref *c02ans
			refName := ""
			for ci := range cfgs {
				a := answers[ci][i]
				if !a.ok {
					continue
				}
				if ref == nil {
					a := a
					ref, refName = &a, cfgs[ci].name
					continue
				}
				if a != *ref {
					rq := sc.Requests[i]
					st := stateFor(sc, rq)
					tags := e.engineTags(st, rq)
					if g := e.grantTags(st, rq); !strings.Contains(tags, strings.TrimSpace(g)) || tags == "" {
						tags += g
					}
					if n := len(st.Unevaluable(rq.Ctx)); n > 0 {
						tags += " request_has_unevaluable_conditions"
					}
					e.Violate("config_dependent_answer", "configs="+refName+"/"+cfgs[ci].name+tags, "request %d (%+v): %s answered %+v, %s answered %+v", i, sc.Requests[i], refName, *ref, cfgs[ci].name, a)
					return
				}
			}
		}
		e.Out.NonTrivial = len(sc.Tuples) > 0 && e.Out.Evals > 0
	})
}

// ---------------------------------------------------------------- C03 weighted-graph Check

type capLogger struct {
	*logger.ZapLogger
	mu    sync.Mutex
	warns []string
}

func (c *capLogger) rec(msg string, fields []zap.Field) {
	s := msg
	for _, f := range fields {
		if f.Key == "reason" {
			s += " reason=" + f.String
		}
		if f.Key == "error" && f.Interface != nil {
			s += fmt.Sprintf(" error=%v", f.Interface)
		}
	}
	c.mu.Lock()
	c.warns = append(c.warns, s)
	c.mu.Unlock()
}
func (c *capLogger) Warn(msg string, f ...zap.Field) { c.rec(msg, f) }
func (c *capLogger) WarnWithContext(_ context.Context, msg string, f ...zap.Field) {
	c.rec(msg, f)
}
func (c *capLogger) take() []string {
	c.mu.Lock()
	defer c.mu.Unlock()
	w := c.warns
	c.warns = nil
	return w
}

func c03Gen(runSeed uint64, tier string) *gen.Scenario {
	g := gen.New(runSeed ^ 0xc03)
	sc := genEngineScenario(runSeed, tier, 0)
	sc.Requests = g.CheckRequests(sc.Model, 12, [3]float64{0.55, 0.15, 0.3})
	sc.Knobs["v2"] = 1
	sc.Knobs["level"] = 1
	if g.Chance(0.2) {
		sc.Knobs["faults"] = int64(simstore.FaultOpenErr | simstore.FaultIterErr)
	}
	if g.Chance(0.1) || gen.Forced("mutualusersets") {
		// directed shape: usersets of different types assignable to each other, userset subjects hops away
		sc.Model, sc.Tuples, sc.Requests = g.MutualUsersets()
	} else if g.Chance(0.15) {
		// directed shape: deep self-recursive relations over many objects, faults in half of them
		sc.Model, sc.Tuples, sc.Requests = g.DeepRecursive()
		if g.Chance(0.5) {
			sc.Knobs["faults"] = int64(simstore.FaultOpenErr | simstore.FaultIterErr)
			sc.Knobs["fault_rate_pm"] = 80
		}
	}
	// object-subject requests also go through the weighted-graph command with the simulator's planner
	// (every strategy the planner may pick, not only the one its statistics favour)
	sc.Knobs["v2_cmd"] = int64(g.Intn(2))
	return sc
}

// v2Command issues one Check through the weighted-graph command (what Server.v2Check builds) with
// the simulator's planner.
func (e *Env) v2Command(ctx context.Context, rq gen.Request, pl planner.Manager) (bool, error) {
	mg, err := modelgraph.New(e.Model)
	if err != nil {
		return false, err
	}
	q := commands.NewCheckQuery(
		commands.WithCheckQueryV2Datastore(e.DS),
		commands.WithCheckQueryV2Model(mg),
		commands.WithCheckQueryV2Planner(pl),
		commands.WithCheckQueryV2ConcurrencyLimit(int(e.Sc.Knob("breadth", 25))),
		commands.WithCheckQueryV2UpstreamTimeout(3*time.Second),
	)
	res, err := q.Execute(ctx, &commands.CheckCommandParams{
		StoreID:          e.StoreID,
		TupleKey:         tuple.NewCheckRequestTupleKey(rq.Obj, rq.Rel, rq.User),
		ContextualTuples: CtxTupleKeys(rq.CtxTuples),
		Context:          rm.MustStruct(rq.Ctx),
	})
	if err != nil {
		return false, err
	}
	return res.Allowed, nil
}

func c03Exec(t *testing.T, sc *gen.Scenario, trace bool) *harness.Outcome {
	return runBubble(t, sc, trace, func(e *Env) {
		lg := &capLogger{ZapLogger: logger.NewNoopLogger()}
		v2, err := e.NewServer(server.WithExperimentals(Experimentals(sc)...), server.WithLogger(lg))
		if err != nil {
			e.Out.Infra = "server: " + err.Error()
			return
		}
		sub := *sc
		sub.Knobs = map[string]int64{}
		for k, v := range sc.Knobs {
			sub.Knobs[k] = v
		}
		sub.Knobs["v2"] = 0
		e1 := *e
		e1.Sc = &sub
		v1, err := e1.NewServer(server.WithExperimentals(Experimentals(&sub)...))
		if err != nil {
			e.Out.Infra = "server: " + err.Error()
			return
		}
		e.cleanup = e1.cleanup
		faulty := sc.Knob("faults", 0) != 0
		v2pl := simstore.NewPlanner(e.Run, int(sc.Knob("plan_policy", 0)))
		for i, rq := range sc.Requests {
			lg.take()
			ctx, cancel := reqCtx(i, ".v2", 10*time.Second)
			firedBefore := e.FiredTotal()
			a2, err2 := e.SrvCheck(ctx, v2, rq)
			cancel()
			warns := lg.take()
			faultTag := ""
			if faulty && err2 == nil {
				faultTag = e.FaultTag(firedBefore, a2, func() (bool, error) {
					ctx, cancel := reqCtx(i, ".v2nofault", 10*time.Second)
					defer cancel()
					return e.SrvCheck(ctx, v2, rq)
				})
				lg.take()
			}
			fellBack, reported := false, false
			for _, w := range warns {
				if strings.Contains(w, "falling back") {
					fellBack = true
				}
				if strings.Contains(w, "breaking change") {
					reported = true
				}
			}
			if fellBack {
				simrt.Probe("v2_fell_back")
			} else {
				simrt.Probe("v2_answered")
			}
			e.Run.Log("resp", fmt.Sprintf("r%d v2 allowed=%v err=%v fallback=%v reported=%v", i, a2, err2 != nil, fellBack, reported))
			st := stateFor(sc, rq)
			kind := subjKind(rq.User)
			if err2 != nil {
				es := err2.Error()
				if strings.Contains(es, "panic") {
					e.Violate("v2_panic", "err="+errSig(err2), "v2 check(%s#%s@%s): captured panic on a valid request: %v", rq.Obj, rq.Rel, rq.User, err2)
					return
				}
			}
			if kind == "object" {
				e.SigExtra = " v2"
				if SelfRecursiveUsersetUnion(sc.Model, rm.ObjType(rq.Obj), rq.Rel) {
					e.SigExtra += " reaches_self_recursive_userset_in_union"
				}
				if ReachesMutualRecursion(sc.Model, rm.ObjType(rq.Obj), rq.Rel) {
					e.SigExtra += " reaches_mutually_recursive_relations"
				}
				if ReachesKind(sc.Model, rm.ObjType(rq.Obj), rq.Rel, rm.Difference) {
					e.SigExtra += " reaches_exclusion"
				}
				if b := sc.Knob("breadth", 25); b <= 2 && err2 != nil && (strings.Contains(err2.Error(), "Deadline") || strings.Contains(err2.Error(), "deadline")) {
					e.SigExtra += fmt.Sprintf(" deadline_with_breadth_limit=%d", b)
				}
				tags := e.SigExtra
				e.SigExtra += faultTag
				e.JudgeCheck("v2", rq, st, a2, err2, faulty)
				e.SigExtra = ""
				if e.Out.Violation != nil {
					return
				}
				if sc.Knob("v2_cmd", 0) == 1 {
					// the same request through the command with a forced strategy choice; an error here is
					// what the server would answer by falling back to the default engine, so only a definite
					// answer is judged
					ctx, cancel := reqCtx(i, ".v2cmd", 10*time.Second)
					firedBefore := e.FiredTotal()
					a3, err3 := e.v2Command(ctx, rq, v2pl)
					cancel()
					if err3 != nil {
						simrt.Probe("v2_command_error")
						continue
					}
					e.SigExtra = tags + " v2_command"
					if faulty {
						e.SigExtra += e.FaultTag(firedBefore, a3, func() (bool, error) {
							ctx, cancel := reqCtx(i, ".v2cmdnofault", 10*time.Second)
							defer cancel()
							return e.v2Command(ctx, rq, v2pl)
						})
					}
					e.JudgeCheck("v2cmd", rq, st, a3, nil, faulty)
					e.SigExtra = ""
					if e.Out.Violation != nil {
						return
					}
				}
				continue
			}
			// userset / wildcard subjects: compare with the default engine
			ctx, cancel = reqCtx(i, ".v1", 10*time.Second)
			a1, err1 := e.SrvCheck(ctx, v1, rq)
			cancel()
			e.Out.Evals++
			if faulty && (err1 != nil || err2 != nil) {
				continue
			}
			if err1 != nil && err2 != nil {
				continue
			}
			if err2 != nil {
				// request-shape rejections are documented; anything else must be v1's error too
				es := err2.Error()
				if strings.Contains(es, "userset") || strings.Contains(es, "wildcard") || reported {
					simrt.Probe("v2_shape_rejection")
					continue
				}
				if len(st.Unevaluable(rq.Ctx)) > 0 {
					continue
				}
				e.Violate("v2_error_v1_answer", "subj="+kind+" err="+errSig(err2), "check(%s#%s@%s): v2 path failed with %v while the default engine answered %v", rq.Obj, rq.Rel, rq.User, err2, a1)
				return
			}
			if err1 != nil {
				if len(st.Unevaluable(rq.Ctx)) > 0 {
					continue
				}
				e.Violate("v1_error_v2_answer", "subj="+kind, "check(%s#%s@%s): default engine failed with %v while v2 answered %v", rq.Obj, rq.Rel, rq.User, err1, a2)
				return
			}
			if a1 != a2 {
				if reported {
					simrt.Probe("divergence_reported")
					continue
				}
				tag := ""
				if kind == "userset" && a1 && !a2 {
					with, _ := st.Check(rq.Obj, rq.Rel, rq.User, rq.Ctx)
					st2 := stateFor(sc, rq)
					st2.NoReflexive = true
					without, _ := st2.Check(rq.Obj, rq.Rel, rq.User, rq.Ctx)
					if with == rm.True && without == rm.False && rq.User != rq.Obj+"#"+rq.Rel {
						tag = " true_only_by_userset_reflexivity_reached_indirectly"
					} else {
						ut, _, ur := rm.SplitUser(rq.User)
						if r := sc.Model.Rel(ut, ur); r != nil {
							for _, res := range r.Restrictions {
								if res.Type == ut && res.Relation == ur {
									tag = " subject_relation_is_self_recursive_userset"
								}
							}
						}
					}
				}
				if kind == "userset" && a1 && !a2 && tag == "" && (ReachesKind(sc.Model, rm.ObjType(rq.Obj), rq.Rel, rm.Computed) || ReachesKind(sc.Model, rm.ObjType(rq.Obj), rq.Rel, rm.TTU)) {
					// the subject's userset is matched by a stored tuple (or by itself) behind a computed
					// userset or a tuple-to-userset: the third shape of F20
					tag = " userset_subject_behind_computed_or_ttu"
				}
				if !a1 && a2 && ReachesKind(sc.Model, rm.ObjType(rq.Obj), rq.Rel, rm.Difference) {
					tag += " reaches_exclusion"
				}
				if !a1 && a2 {
					for _, t := range st.Tuples {
						if !sc.Model.ValidForRead(t) {
							tag += " state_has_tuple_invalid_for_model"
							break
						}
					}
				}
				e.Violate("unreported_divergence", fmt.Sprintf("subj=%s v1=%v v2=%v %s%s", kind, a1, a2, shapeSig(sc.Model, rq), tag), "check(%s#%s@%s ctx=%v): weighted-graph path answered %v, default engine %v, and the breaking-change detector did not report it (warnings: %v)", rq.Obj, rq.Rel, rq.User, rq.Ctx, a2, a1, warns)
				return
			} else if reported {
				simrt.Probe("detector_fired_without_divergence")
			}
		}
		e.Out.NonTrivial = len(sc.Tuples) > 0 && e.Out.Evals > 0
	})
}

// ---------------------------------------------------------------- C04 contextual == stored

func c04Gen(runSeed uint64, tier string) *gen.Scenario {
	sc := genEngineScenario(runSeed, tier, 0)
	g := gen.New(runSeed ^ 0xc04)
	// split valid tuples into stored A and contextual B; leftovers stay stored
	var a, b []rm.Tuple
	for _, t := range sc.Tuples {
		if sc.Model.ValidForWrite(t) && len(b) < 8 && g.Chance(0.35) {
			b = append(b, t)
		} else {
			a = append(a, t)
		}
	}
	sc.Tuples = a
	var reqs []gen.Request
	reqs = append(reqs, g.CheckRequests(sc.Model, 5, [3]float64{0.7, 0.1, 0.2})...)
	reqs = append(reqs, g.ListObjectsRequests(sc.Model, 3, [3]float64{0.8, 0.05, 0.15})...)
	reqs = append(reqs, g.ListUsersRequests(sc.Model, 3)...)
	// expand
	for i := 0; i < 2 && len(reqs) > 0; i++ {
		r := reqs[g.Intn(5)]
		reqs = append(reqs, gen.Request{Kind: "expand", Obj: r.Obj, Rel: r.Rel})
	}
	for i := range reqs {
		switch g.Intn(4) {
		case 0: // no contextual tuples
		case 1:
			reqs[i].CtxTuples = append([]rm.Tuple(nil), b...)
		default:
			for _, t := range b {
				if g.Chance(0.5) {
					reqs[i].CtxTuples = append(reqs[i].CtxTuples, t)
				}
			}
		}
	}
	sc.Requests = reqs
	sc.Knobs["caches"] = int64(g.Intn(2))
	sc.Knobs["lo_engine"] = int64(g.Intn(4))
	sc.Knobs["conc"] = int64(1 + g.Intn(2))
	sc.Knobs["evict_pm"] = []int64{0, 100}[g.Intn(2)]
	sc.Knobs["faults"] = 0
	return sc
}

func cacheOpts(e *Env, sc *gen.Scenario) ([]server.OpenFGAServiceV1Option, *simstore.Cache) {
	c := simstore.NewCache(e.Run)
	c.EvictRate = float64(sc.Knob("evict_pm", 0)) / 1000
	c.DropRate = float64(sc.Knob("drop_pm", 0)) / 1000
	return []server.OpenFGAServiceV1Option{
		server.WithCheckCache(c),
		server.WithCheckQueryCacheEnabled(true), server.WithCheckQueryCacheTTL(time.Minute),
		server.WithCheckIteratorCacheEnabled(true), server.WithCheckIteratorCacheTTL(time.Minute), server.WithCheckIteratorCacheMaxResults(uint32(sc.Knob("iter_max", 1000))),
		server.WithListObjectsIteratorCacheEnabled(true), server.WithListObjectsIteratorCacheTTL(time.Minute), server.WithListObjectsIteratorCacheMaxResults(uint32(sc.Knob("iter_max", 1000))),
	}, c
}

type anyAns struct {
	s         string
	err       bool
	truncated bool
}

// lastErr remembers the most recent error text of an issued call (diagnostics in violation details).
var lastErr string

func noteErr(err error) bool {
	if err != nil {
		lastErr = errSig(err)
		return true
	}
	return false
}

func (e *Env) issue(ctx context.Context, s *server.Server, storeID string, rq gen.Request) anyAns {
	rq.Store = storeID
	switch rq.Kind {
	case "check":
		a, err := e.SrvCheck(ctx, s, rq)
		return anyAns{fmt.Sprint(a), noteErr(err), false}
	case "listobjects":
		got, err := e.SrvListObjects(ctx, s, rq, false)
		return anyAns{strings.Join(sorted(got), ","), noteErr(err), false}
	case "listusers":
		got, err := e.SrvListUsers(ctx, s, rq)
		return anyAns{strings.Join(sorted(got), ","), noteErr(err), e.Truncated}
	case "expand":
		tr, err := e.SrvExpand(ctx, s, rq)
		return anyAns{tr, noteErr(err), false}
	}
	return anyAns{"?", true, false}
}

func c04Exec(t *testing.T, sc *gen.Scenario, trace bool) *harness.Outcome {
	return runBubble(t, sc, trace, func(e *Env) {
		opts := loServerOpts(sc)
		if sc.Knob("caches", 0) == 1 {
			co, _ := cacheOpts(e, sc)
			opts = append(opts, co...)
		}
		s, err := e.NewServer(opts...)
		if err != nil {
			e.Out.Infra = "server: " + err.Error()
			return
		}
		// a second store per distinct contextual set holds A ∪ B stored; created lazily
		stores := map[string]string{}
		storeFor := func(ct []rm.Tuple) (string, error) {
			var ks []string
			for _, t := range ct {
				ks = append(ks, t.String())
			}
			sort.Strings(ks)
			key := strings.Join(ks, ";")
			if id, ok := stores[key]; ok {
				return id, nil
			}
			id := e.NewULID(100 + len(stores))
			e.Run.Name(id, fmt.Sprintf("S%d", 2+len(stores)))
			if err := e.cloneStore(id, append(append([]rm.Tuple(nil), sc.Tuples...), ct...)); err != nil {
				return "", err
			}
			stores[key] = id
			return id, nil
		}
		before, _ := e.dumpStore(e.StoreID)
		conc := int(sc.Knob("conc", 1))
		var wg sync.WaitGroup
		do := func(i int, rq gen.Request) {
			defer wg.Done()
			ctx, cancel := reqCtx(i, ".ctx", 10*time.Second)
			a := e.issue(ctx, s, e.StoreID, rq)
			cancel()
			sid, err := storeFor(rq.CtxTuples)
			if err != nil {
				e.Out.Infra = "clone store: " + err.Error()
				return
			}
			plain := rq
			plain.CtxTuples = nil
			ctx, cancel = reqCtx(i, ".stored", 10*time.Second)
			b := e.issue(ctx, s, sid, plain)
			cancel()
			e.Out.Evals++
			e.Run.Log("resp", fmt.Sprintf("r%d ctx=%v stored=%v", i, a, b))
			if a.err || b.err {
				if a.err != b.err && len(stateFor(sc, rq).Unevaluable(rq.Ctx)) == 0 {
					e.Violate("contextual_vs_stored_error", "kind="+rq.Kind, "%s %+v: contextual variant err=%v, stored variant err=%v", rq.Kind, rq, a.err, b.err)
				}
				return
			}
			// both variants against the reference on A ∪ B first (own tuples only: no leak from other
			// requests); the reference verdicts carry the discriminating signatures of known defects
			truncated := a.truncated || b.truncated
			judge := func(x anyAns, who string) {
				e.Truncated = truncated
				switch rq.Kind {
				case "check":
					e.JudgeCheck(who, rq, stateFor(sc, rq), x.s == "true", nil, false)
				case "listobjects":
					var got []string
					if x.s != "" {
						got = strings.Split(x.s, ",")
					}
					e.JudgeListObjects(who, rq, stateFor(sc, rq), got, nil, false, 0, false)
				case "listusers":
					var got []string
					if x.s != "" {
						got = strings.Split(x.s, ",")
					}
					e.JudgeListUsers(who, rq, stateFor(sc, rq), got, nil, false)
				}
			}
			judge(a, "ctx")
			judge(b, "stored")
			if rq.Kind == "listusers" && a.s != b.s && ListUsersEquivalent(strings.Split(a.s, ","), strings.Split(b.s, ",")) {
				simrt.Probe("listusers_answers_differ_in_wildcard_covered_users")
				return
			}
			if e.Out.Violation == nil && a.s != b.s && !truncated {
				e.Violate("contextual_differs_from_stored", "kind="+rq.Kind, "%s %+v: with contextual tuples: %s; with the same tuples stored: %s", rq.Kind, rq, a.s, b.s)
			}
		}
		for i := 0; i < len(sc.Requests); i += conc {
			for k := 0; k < conc && i+k < len(sc.Requests); k++ {
				wg.Add(1)
				i, k := i, k
				if conc == 1 {
					do(i, sc.Requests[i])
				} else {
					e.Run.Go(fmt.Sprintf("client%d", i+k), func() { do(i+k, sc.Requests[i+k]) })
				}
			}
			wg.Wait()
			if e.Out.Violation != nil || e.Out.Infra != "" {
				return
			}
		}
		after, _ := e.dumpStore(e.StoreID)
		if before != after {
			e.Violate("contextual_tuples_persisted", "", "store content changed by read-only requests with contextual tuples:\nbefore: %s\nafter:  %s", before, after)
		}
		e.Out.NonTrivial = len(sc.Tuples) > 0 && e.Out.Evals > 0
	})
}

// Package hengine hosts the engine-family checks (C01–C07, C30, C32): one store, one model, a
// fixed tuple set, and query requests judged against the reference model.
package hengine

import (
	"context"
	"errors"
	"fmt"
	"sort"
	"strings"
	"testing"
	"time"

	"github.com/oklog/ulid/v2"
	openfgav1 "github.com/openfga/api/proto/openfga/v1"
	"google.golang.org/grpc/codes"
	"google.golang.org/grpc/status"

	"github.com/openfga/openfga/internal/graph"
	"github.com/openfga/openfga/internal/verifsim/gen"
	"github.com/openfga/openfga/internal/verifsim/harness"
	rm "github.com/openfga/openfga/internal/verifsim/refmodel"
	"github.com/openfga/openfga/internal/verifsim/hsql"
	"github.com/openfga/openfga/internal/verifsim/simrt"
	"github.com/openfga/openfga/internal/verifsim/simstore"
	"github.com/openfga/openfga/pkg/storage"
	"github.com/openfga/openfga/pkg/storage/cache/keys"
	"github.com/openfga/openfga/pkg/storage/memory"
	"github.com/openfga/openfga/pkg/typesystem"
)

// Env is the per-run environment built inside the bubble.
type Env struct {
	T       *testing.T
	Sc      *gen.Scenario
	Run     *simrt.Run
	Mem     storage.OpenFGADatastore
	DS      *simstore.DS
	StoreID string
	ModelID string
	Model   *openfgav1.AuthorizationModel
	TS      *typesystem.TypeSystem
	Ref     *rm.State
	Out     *harness.Outcome
	Hung    bool // a call never returned: goroutines are left behind on purpose
	Truncated bool  // the last ListUsers call ran into its deadline
	LoEngine int     // ListObjects engine of the server the current call goes to (-1 = from the scenario knob)
	SigExtra string // appended to violation signatures by the judges (context of the current call)
	// GrantNotFromCrossUsersets: the current wrongly-granted answer was obtained again on a copy of the
	// store WITHOUT the tuples finding F39 needs, so F39's shape tag must not claim it
	GrantNotFromCrossUsersets bool
	cleanup []func()
}

var baseULIDTime = uint64(946000000000) // before the bubble epoch (2000-01-01), so that ids made by the server later sort after ours

// NewULID returns a deterministic, monotonically increasing ULID for run-local ids.
func (e *Env) NewULID(n int) string {
	var ent [10]byte
	h := e.Run.H("ulid", n)
	for i := range ent {
		ent[i] = byte(h >> (uint(i%8) * 8))
	}
	var id ulid.ULID
	_ = id.SetTime(baseULIDTime + uint64(n))
	_ = id.SetEntropy(ent[:])
	return id.String()
}

func dsConfig(sc *gen.Scenario) simstore.DSConfig {
	var panicIn []string
	if sc.Knob("panic_in_pipeline_only", 0) == 1 {
		panicIn = []string{"internal/listobjects/pipeline"}
	}
	return simstore.DSConfig{
		PanicOnlyIn: panicIn,
		Faults:     int(sc.Knob("faults", 0)),
		FaultRate:  float64(sc.Knob("fault_rate_pm", 30)) / 1000.0,
		MaxLatency: time.Duration(sc.Knob("max_latency_ns", 20000)),
		MaxFaults:  int(sc.Knob("max_faults", 3)),
		TimeoutErrs: sc.Knob("fault_timeouts", 0) == 1,
	}
}

// Setup creates run, datastore, store, model and tuples. Returns false (with Out.Skip set) when the
// scenario is unusable (e.g. model rejected by the validator).
func Setup(t *testing.T, sc *gen.Scenario, trace bool, out *harness.Outcome) *Env {
	keys.Seed = 0x5eed0000 ^ (sc.RunSeed & 0xffff)
	run := simrt.Begin(simrt.Config{Seed: sc.RunSeed, Mode: int(sc.Knob("delay_mode", 0)), Trace: trace, MaxYield: sc.Knob("max_yield_ns", 2000)})
	e := &Env{T: t, Sc: sc, Run: run, Out: out, LoEngine: -1}
	e.Mem = memory.New()
	ok := false
	defer func() {
		if !ok { // unusable scenario: nothing will call Close
			for i := len(e.cleanup) - 1; i >= 0; i-- {
				e.cleanup[i]()
			}
		}
	}()
	if sc.Knob("sqlite", 0) == 1 {
		// the real SQLite backend (through the simulated database/sql driver of hsql) under the same
		// simulated datastore wrapper
		ds, closeDS, err := hsql.OpenForEngine(run)
		if err != nil {
			out.Infra = "sqlite: " + err.Error()
			return nil
		}
		e.Mem = ds
		e.OnClose(closeDS)
	}
	e.DS = simstore.NewDS(e.Mem, run, dsConfig(sc))
	e.StoreID = e.NewULID(1)
	run.Name(e.StoreID, "S1")
	ctx := context.Background()
	if _, err := e.Mem.CreateStore(ctx, &openfgav1.Store{Id: e.StoreID, Name: "s1"}); err != nil {
		out.Infra = "create store: " + err.Error()
		return nil
	}
	e.Model = sc.Model.ToProto()
	e.ModelID = e.NewULID(2)
	e.Model.Id = e.ModelID
	run.Name(e.ModelID, "M1")
	ts, err := typesystem.NewAndValidate(ctx, e.Model)
	if err != nil {
		out.Skip = "invalid_model"
		return nil
	}
	e.TS = ts
	if err := e.Mem.WriteAuthorizationModel(ctx, e.StoreID, e.Model); err != nil {
		out.Infra = "write model: " + err.Error()
		return nil
	}
	if err := e.WriteTuplesRaw(sc.Tuples); err != nil {
		out.Infra = "write tuples: " + err.Error()
		return nil
	}
	e.Ref = rm.NewState(sc.Model, sc.Tuples)
	ok = true
	return e
}

// WriteTuplesRaw writes through the raw datastore (no validation: leftovers allowed).
func (e *Env) WriteTuplesRaw(ts []rm.Tuple) error { return e.WriteTuplesRawTo(e.StoreID, ts) }

func (e *Env) WriteTuplesRawTo(storeID string, ts []rm.Tuple) error {
	for i := 0; i < len(ts); i += 40 {
		j := i + 40
		if j > len(ts) {
			j = len(ts)
		}
		var w []*openfgav1.TupleKey
		for _, t := range ts[i:j] {
			w = append(w, t.TupleKey())
		}
		if err := e.Mem.Write(context.Background(), storeID, nil, w); err != nil {
			return err
		}
	}
	return nil
}

func (e *Env) Close() {
	if e.Hung {
		// goroutines of the hung call are left behind; cleanup may block on them
		done := make(chan struct{})
		go func() {
			for i := len(e.cleanup) - 1; i >= 0; i-- {
				e.cleanup[i]()
			}
			close(done)
		}()
		select {
		case <-done:
		case <-time.After(30 * time.Second):
		}
		e.Finish()
		simrt.End()
		return
	}
	for i := len(e.cleanup) - 1; i >= 0; i-- {
		e.cleanup[i]()
	}
	e.Finish()
	simrt.End()
}

func (e *Env) OnClose(f func()) { e.cleanup = append(e.cleanup, f) }

// Finish copies run statistics into the outcome.
func (e *Env) Finish() {
	o := e.Out
	o.Probes = e.Run.Probes()
	o.Faults = e.DS.Fired()
	o.SimTimeNs = int64(e.Run.Elapsed())
	o.Events = e.Run.NumEvents()
	o.Yields = e.Run.NumYields()
	o.Digest = e.Run.Digest()
	if o.Trace == nil {
		ev := e.Run.Events()
		if len(ev) > 6000 {
			ev = append(append([]string(nil), ev[:3000]...), ev[len(ev)-3000:]...)
		}
		o.Trace = ev
	}
}

// Violate records the first violation.
func (e *Env) Violate(class, sig, format string, args ...any) {
	if e.Out.Violation != nil {
		return
	}
	e.Out.Violation = &harness.Violation{Class: class, Sig: sig, Detail: e.Run.CanonAll(fmt.Sprintf(format, args...))}
	e.Run.Log("violation", class)
}

// ---------------------------------------------------------------- error classification

type ErrClass int

const (
	ErrNone ErrClass = iota
	ErrValidation
	ErrDepth
	ErrCancelled
	ErrDeadline
	ErrInjected
	ErrPanicCaptured
	ErrCondition
	ErrOther
)

func Classify(err error) ErrClass {
	if err == nil {
		return ErrNone
	}
	s := err.Error()
	switch {
	case errors.Is(err, simstore.ErrSimIO) || strings.Contains(s, "sim: injected"):
		return ErrInjected
	case errors.Is(err, graph.ErrResolutionDepthExceeded) || strings.Contains(s, "resolution depth exceeded") || strings.Contains(s, "resolution too complex"):
		return ErrDepth
	case errors.Is(err, context.Canceled) || status.Code(err) == codes.Canceled:
		return ErrCancelled
	case errors.Is(err, context.DeadlineExceeded) || status.Code(err) == codes.DeadlineExceeded:
		return ErrDeadline
	case strings.Contains(s, "panic"):
		return ErrPanicCaptured
	case strings.Contains(s, "condition") || strings.Contains(s, "context param"):
		return ErrCondition
	}
	if c := status.Code(err); c == codes.InvalidArgument || strings.Contains(s, "invalid") {
		return ErrValidation
	}
	var code interface{ GRPCStatus() *status.Status }
	if errors.As(err, &code) {
		if uint32(code.GRPCStatus().Code()) >= 2000 && uint32(code.GRPCStatus().Code()) < 3000 {
			return ErrValidation
		}
	}
	return ErrOther
}

// ---------------------------------------------------------------- judging a Check answer

// JudgeCheck compares one Check outcome with the reference. faulty = storage faults may have fired
// during this request (errors are then admissible).
//
// Oracle (C01): with no unevaluable condition in the data the answer must be exactly the
// least-fixpoint answer. With unevaluable conditions, an error is always admissible; a definite
// answer is admissible only if it is the answer under EVERY way of resolving those conditions
// ("the rest of the expression already decides the answer").
func (e *Env) JudgeCheck(who string, rq gen.Request, st *rm.State, allowed bool, err error, faulty bool) {
	sup := st.CheckSuper(rq.Obj, rq.Rel, rq.User, rq.Ctx)
	e.Out.Evals++
	desc := fmt.Sprintf("%s check(%s#%s@%s ctx=%v ctxt=%v)", who, rq.Obj, rq.Rel, rq.User, rq.Ctx, rq.CtxTuples)
	ref := fmt.Sprintf("reference: canBeTrue=%v canBeFalse=%v unevaluable=%d", sup.CanBeTrue, sup.CanBeFalse, sup.N)
	ec := Classify(err)
	switch ec {
	case ErrNone:
	case ErrDepth:
		simrt.Probe("depth_exceeded")
		return
	case ErrInjected, ErrPanicCaptured, ErrCancelled, ErrDeadline:
		if faulty {
			simrt.Probe("error_under_fault")
			return
		}
		e.Violate("unexpected_error:"+errKind(err), "err="+errSig(err), "%s: error %v without an injected fault (%s)", desc, err, ref)
		return
	default:
		// condition / validation / other errors
		if sup.N > 0 {
			simrt.Probe("error_with_unevaluable_condition")
			return
		}
		if faulty {
			return
		}
		e.Violate("unexpected_error:"+errKind(err), "err="+errSig(err)+e.SigExtra+e.grantTags(st, rq), "%s: error %v (%s)", desc, err, ref)
		return
	}
	sig := shapeSig(e.Sc.Model, rq) + e.SigExtra
	switch {
	case allowed && !sup.CanBeTrue:
		e.Violate("true_for_false", sig+e.grantTags(st, rq), "%s: allowed=true, %s", desc, ref)
	case allowed && sup.CanBeFalse:
		if sup.Approx {
			simrt.Probe("approx_skipped")
			return
		}
		e.Violate("true_for_undecided", sig+e.grantTags(st, rq), "%s: allowed=true although the answer depends on a condition that cannot be evaluated (%s)", desc, ref)
	case !allowed && !sup.CanBeFalse:
		if st.DiffSubtrahendReachesCycle(rq.Obj, rq.Rel) {
			sig += " diff_subtrahend_reaches_tuple_cycle"
		} else if st.ShadowedSibling(rq.User, rq.Ctx) {
			sig += " unsatisfied_conditional_tuple_shadows_sibling_of_same_object"
		}
		e.Violate("false_for_true", sig+e.denyTags(st, rm.ObjType(rq.Obj), rq.Rel), "%s: allowed=false, %s", desc, ref)
	case !allowed && sup.CanBeTrue:
		if sup.Approx {
			simrt.Probe("approx_skipped")
			return
		}
		if st.DiffSubtrahendReachesCycle(rq.Obj, rq.Rel) {
			sig += " diff_subtrahend_reaches_tuple_cycle"
		} else if st.SwallowedBySibling(rq.Ctx, sup.Relevant) {
			sig += " condition_error_has_satisfied_sibling"
		} else if st.ShadowedSibling(rq.User, rq.Ctx) {
			sig += " unsatisfied_conditional_tuple_shadows_sibling_of_same_object"
		}
		e.Violate("false_for_undecided", sig+e.denyTags(st, rm.ObjType(rq.Obj), rq.Rel), "%s: allowed=false although the answer depends on a condition that cannot be evaluated; the request should fail (%s)", desc, ref)
	default:
		if sup.N > 0 {
			simrt.Probe("decided_despite_unevaluable")
		}
		if allowed {
			simrt.Probe("answer_true")
		} else {
			simrt.Probe("answer_false")
		}
	}
}

// errKind is a coarse, stable classification used in violation classes (so that minimisation
// cannot drift from, say, an internal error to a validation error).
func errKind(err error) string {
	switch Classify(err) {
	case ErrValidation:
		return "validation"
	case ErrCondition:
		return "condition"
	case ErrCancelled, ErrDeadline:
		return "cancelled"
	case ErrInjected:
		return "injected"
	case ErrPanicCaptured:
		return "panic"
	case ErrDepth:
		return "depth"
	}
	if c := uint32(status.Code(err)); c >= 2000 && c < 3000 {
		return "validation"
	}
	return "internal"
}

// engineTags names the schedule- or strategy-dependent engine defects (F1, F9, F10) whose shape is
// present for this request. Two runs of the same request can then legitimately differ for reasons
// that have nothing to do with the feature under test (a cache, a consistency flag, ...).
func (e *Env) engineTags(st *rm.State, rq gen.Request) string {
	switch {
	case rq.Kind != "" && rq.Kind != "check":
		return ""
	case st.DiffSubtrahendReachesCycle(rq.Obj, rq.Rel):
		return " diff_subtrahend_reaches_tuple_cycle"
	case st.ShadowedSibling(rq.User, rq.Ctx):
		return " unsatisfied_conditional_tuple_shadows_sibling_of_same_object"
	case st.SwallowedBySibling(rq.Ctx, st.Unevaluable(rq.Ctx)):
		return " condition_error_has_satisfied_sibling"
	}
	return ""
}

// denyTags: a defect that wrongly GRANTS membership (F39) turns into a lost answer when the
// wrongly granted relation sits in an exclusion's subtrahend.
func (e *Env) denyTags(st *rm.State, typ, rel string) string {
	if ReachesKind(e.Sc.Model, typ, rel, rm.Difference) && TwoUsersetsOfOneType(e.Sc.Model, typ, rel) && crossUsersetTuple(e.Sc.Model, st) {
		return " under_exclusion two_userset_restrictions_of_one_type"
	}
	return ""
}

// withoutCrossUsersetTuples drops the tuples crossUsersetTuple looks for that are VALID for the model
// (F39 is about those; the engine filters the invalid ones out before the strategy sees them).
func withoutCrossUsersetTuples(m *rm.Model, ts []rm.Tuple) []rm.Tuple {
	var out []rm.Tuple
	for _, t := range ts {
		if !m.ValidForRead(t) || !crossUsersetTuple(m, &rm.State{Tuples: []rm.Tuple{t}}) {
			out = append(out, t)
		}
	}
	return out
}

// crossUsersetTuple: the state holds a tuple T:x#r@T:y#r2 with r2 != r on a relation r that lists both
// its own userset T#r and T#r2 — the tuple the recursive userset strategy follows as if it named r
// (F39). Without such a tuple the two restrictions alone change nothing.
func crossUsersetTuple(m *rm.Model, st *rm.State) bool {
	for _, t := range st.Tuples {
		ut, _, ur := rm.SplitUser(t.User)
		if ur == "" || ur == t.Rel || rm.ObjType(t.Obj) != ut {
			continue
		}
		r := m.Rel(ut, t.Rel)
		if r == nil {
			continue
		}
		self, other := false, false
		for _, res := range r.Restrictions {
			if res.Type == ut && res.Relation == t.Rel {
				self = true
			}
			if res.Type == ut && res.Relation == ur {
				other = true
			}
		}
		if self && other {
			return true
		}
	}
	return false
}

// FiredTotal is the number of injected faults fired so far in this run.
func (e *Env) FiredTotal() int {
	n := 0
	for _, v := range e.DS.Fired() {
		n += v
	}
	return n
}

// FaultTag attributes a definite answer obtained while faults are injected: if a fault fired during
// the request, the request is issued once more with fault injection switched off; a different
// definite answer means the fault changed the answer (" fault_changed_answer" — no recorded
// fault-free finding may claim such a violation), the same answer means it did not.
func (e *Env) FaultTag(firedBefore int, first bool, reissue func() (bool, error)) string {
	if e.FiredTotal() == firedBefore {
		return ""
	}
	cfg := dsConfig(e.Sc)
	e.DS.SetFaults(0, 0)
	again, err := reissue()
	e.DS.SetFaults(cfg.Faults, cfg.FaultRate)
	if err == nil && again != first {
		return " fault_changed_answer"
	}
	return " same_answer_without_faults"
}

// grantTags: the known "loses a tuple" defects (F1, F10) turn into wrongly GRANTED access when the
// lost membership sits under an exclusion's subtrahend.
func (e *Env) grantTags(st *rm.State, rq gen.Request) string {
	inv := ""
	if !e.GrantNotFromCrossUsersets && TwoUsersetsOfOneType(e.Sc.Model, rm.ObjType(rq.Obj), rq.Rel) && crossUsersetTuple(e.Sc.Model, st) {
		// F39: the recursive userset fast path follows every userset of the relation's own type as if
		// it named the relation itself
		inv = " two_userset_restrictions_of_one_type"
	}
	for _, t := range st.Tuples {
		if !e.Sc.Model.ValidForRead(t) {
			// only the weighted-graph path is known to honour such tuples (F25); the tag is inert for v1
			inv += " state_has_tuple_invalid_for_model"
			break
		}
	}
	if !ReachesKind(e.Sc.Model, rm.ObjType(rq.Obj), rq.Rel, rm.Difference) {
		return inv
	}
	switch {
	case st.ShadowedSibling(rq.User, rq.Ctx):
		return inv + " under_exclusion unsatisfied_conditional_tuple_shadows_sibling_of_same_object"
	case st.DiffSubtrahendReachesCycle(rq.Obj, rq.Rel):
		return inv + " under_exclusion diff_subtrahend_reaches_tuple_cycle"
	case st.SwallowedBySibling(rq.Ctx, st.Unevaluable(rq.Ctx)):
		return inv + " under_exclusion condition_error_has_satisfied_sibling"
	}
	return inv
}

func errSig(err error) string {
	s := err.Error()
	if len(s) > 60 {
		s = s[:60]
	}
	// public errors hide their cause; the unwrapped chain is the useful part
	for inner := errors.Unwrap(err); inner != nil; inner = errors.Unwrap(inner) {
		is := inner.Error()
		if len(is) > 120 {
			is = is[:120]
		}
		s += " <- " + is
	}
	return s
}

// shapeSig is a structural signature of the relation a request targets (rewrite shape only).
func shapeSig(m *rm.Model, rq gen.Request) string {
	rel := m.Rel(rm.ObjType(rq.Obj), rq.Rel)
	subj := "object"
	if rm.IsUserset(rq.User) {
		subj = "userset"
	} else if rm.IsWildcard(rq.User) {
		subj = "wildcard"
	}
	if rel == nil {
		return "subj=" + subj
	}
	return "subj=" + subj + " rewrite=" + RewriteShape(rel.Rewrite)
}

func RewriteShape(rw *rm.Rewrite) string {
	switch rw.Kind {
	case rm.This:
		return "this"
	case rm.Computed:
		return "computed"
	case rm.TTU:
		return "ttu"
	}
	var parts []string
	for _, c := range rw.Children {
		parts = append(parts, RewriteShape(c))
	}
	op := map[rm.RewriteKind]string{rm.Union: "union", rm.Intersection: "inter", rm.Difference: "diff"}[rw.Kind]
	if rw.Kind != rm.Difference {
		sort.Strings(parts)
	}
	return op + "(" + strings.Join(parts, ",") + ")"
}

// ModelShape is a coarse shape class of a model (distinct-scenario measure).
func ModelShape(m *rm.Model) string {
	var parts []string
	for _, t := range m.Types {
		for _, r := range t.Relations {
			s := RewriteShape(r.Rewrite)
			for _, res := range r.Restrictions {
				switch {
				case res.Wildcard:
					s += "+w"
				case res.Relation != "":
					if res.Type == t.Name && res.Relation == r.Name {
						s += "+selfus"
					} else {
						s += "+us"
					}
				}
				if res.Cond != "" {
					s += "c"
				}
			}
			parts = append(parts, s)
		}
	}
	sort.Strings(parts)
	return strings.Join(parts, ";")
}

// CheckParams builds the protobuf pieces of a request.
func CtxTupleKeys(ts []rm.Tuple) *openfgav1.ContextualTupleKeys {
	if len(ts) == 0 {
		return nil
	}
	out := &openfgav1.ContextualTupleKeys{}
	for _, t := range ts {
		out.TupleKeys = append(out.TupleKeys, t.TupleKey())
	}
	return out
}

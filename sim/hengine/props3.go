package hengine

import (
	"context"
	"fmt"
	"sort"
	"strings"
	"testing"
	"time"

	authzenv1 "github.com/openfga/api/proto/authzen/v1"
	openfgav1 "github.com/openfga/api/proto/openfga/v1"

	"github.com/openfga/openfga/internal/verifsim/gen"
	"github.com/openfga/openfga/internal/verifsim/harness"
	rm "github.com/openfga/openfga/internal/verifsim/refmodel"
	"github.com/openfga/openfga/internal/verifsim/simrt"
	"github.com/openfga/openfga/internal/verifsim/simstore"
	"github.com/openfga/openfga/pkg/server"
	"github.com/openfga/openfga/pkg/storage"
)

// ---------------------------------------------------------------- store helpers

// cloneStore creates another store with the same model (same model id) and the given tuples.
func (e *Env) cloneStore(id string, tuples []rm.Tuple) error {
	ctx := context.Background()
	if _, err := e.Mem.CreateStore(ctx, &openfgav1.Store{Id: id, Name: "clone"}); err != nil {
		return err
	}
	if err := e.Mem.WriteAuthorizationModel(ctx, id, e.Model); err != nil {
		return err
	}
	return e.WriteTuplesRawTo(id, tuples)
}

// dumpStore renders tuples and changelog of a store canonically (read through the raw backend).
func (e *Env) dumpStore(id string) (string, error) {
	ctx := context.Background()
	it, err := e.Mem.Read(ctx, id, storage.ReadFilter{}, storage.ReadOptions{})
	if err != nil {
		return "", err
	}
	defer it.Stop()
	var ts []string
	for {
		t, err := it.Next(ctx)
		if err != nil {
			break
		}
		ts = append(ts, rm.TupleFromKey(t.GetKey()).String())
	}
	sort.Strings(ts)
	ch, _, _ := e.Mem.ReadChanges(ctx, id, storage.ReadChangesFilter{}, storage.ReadChangesOptions{Pagination: storage.PaginationOptions{PageSize: 10000}})
	return fmt.Sprintf("tuples=%v changes=%d", ts, len(ch)), nil
}

// ---------------------------------------------------------------- Expand

func renderTree(n *openfgav1.UsersetTree_Node) string {
	if n == nil {
		return "nil"
	}
	name := n.GetName()
	switch v := n.GetValue().(type) {
	case *openfgav1.UsersetTree_Node_Leaf:
		switch l := v.Leaf.GetValue().(type) {
		case *openfgav1.UsersetTree_Leaf_Users:
			return name + "=users" + fmt.Sprint(l.Users.GetUsers())
		case *openfgav1.UsersetTree_Leaf_Computed:
			return name + "=computed(" + l.Computed.GetUserset() + ")"
		case *openfgav1.UsersetTree_Leaf_TupleToUserset:
			var cs []string
			for _, c := range l.TupleToUserset.GetComputed() {
				cs = append(cs, c.GetUserset())
			}
			sort.Strings(cs)
			return name + "=ttu(" + l.TupleToUserset.GetTupleset() + ";" + strings.Join(cs, ",") + ")"
		}
		return name + "=leaf?"
	case *openfgav1.UsersetTree_Node_Union:
		var cs []string
		for _, c := range v.Union.GetNodes() {
			cs = append(cs, renderTree(c))
		}
		return name + "=union(" + strings.Join(cs, " | ") + ")"
	case *openfgav1.UsersetTree_Node_Intersection:
		var cs []string
		for _, c := range v.Intersection.GetNodes() {
			cs = append(cs, renderTree(c))
		}
		return name + "=intersection(" + strings.Join(cs, " & ") + ")"
	case *openfgav1.UsersetTree_Node_Difference:
		return name + "=difference(" + renderTree(v.Difference.GetBase()) + " \\ " + renderTree(v.Difference.GetSubtract()) + ")"
	}
	return name + "=?"
}

// SrvExpand returns the canonical rendering of the expansion tree.
func (e *Env) SrvExpand(ctx context.Context, s *server.Server, rq gen.Request) (string, error) {
	resp, err := s.Expand(ctx, &openfgav1.ExpandRequest{
		StoreId:              e.storeOf(rq),
		AuthorizationModelId: e.modelOf(rq),
		TupleKey:             &openfgav1.ExpandRequestTupleKey{Object: rq.Obj, Relation: rq.Rel},
		ContextualTuples:     CtxTupleKeys(rq.CtxTuples),
		Consistency:          consistency(rq.HC),
	})
	if err != nil {
		return "", err
	}
	return renderTree(resp.GetTree().GetRoot()), nil
}

// RefExpand is the reference tree: node kinds and names from the rewrite, leaves from the valid
// tuples (sorted, de-duplicated).
func RefExpand(st *rm.State, o, r string) string {
	rel := st.M.Rel(rm.ObjType(o), r)
	if rel == nil {
		return "norel"
	}
	name := o + "#" + r
	var walk func(rw *rm.Rewrite) string
	walk = func(rw *rm.Rewrite) string {
		switch rw.Kind {
		case rm.This:
			set := map[string]bool{}
			for _, t := range st.Tuples {
				if t.Obj == o && t.Rel == r && st.M.ValidForRead(t) {
					set[t.User] = true
				}
			}
			us := make([]string, 0, len(set))
			for u := range set {
				us = append(us, u)
			}
			sort.Strings(us)
			return name + "=users" + fmt.Sprint(us)
		case rm.Computed:
			return name + "=computed(" + o + "#" + rw.Relation + ")"
		case rm.TTU:
			set := map[string]bool{}
			for _, t := range st.Tuples {
				if t.Obj == o && t.Rel == rw.Tupleset && st.M.ValidForRead(t) {
					set[rm.UserObject(t.User)+"#"+rw.Relation] = true
				}
			}
			cs := make([]string, 0, len(set))
			for c := range set {
				cs = append(cs, c)
			}
			sort.Strings(cs)
			return name + "=ttu(" + o + "#" + rw.Tupleset + ";" + strings.Join(cs, ",") + ")"
		case rm.Union, rm.Intersection:
			var cs []string
			for _, c := range rw.Children {
				cs = append(cs, walk(c))
			}
			if rw.Kind == rm.Union {
				return name + "=union(" + strings.Join(cs, " | ") + ")"
			}
			return name + "=intersection(" + strings.Join(cs, " & ") + ")"
		case rm.Difference:
			return name + "=difference(" + walk(rw.Children[0]) + " \\ " + walk(rw.Children[1]) + ")"
		}
		return "?"
	}
	return walk(rel.Rewrite)
}

func c30Gen(runSeed uint64, tier string) *gen.Scenario {
	sc := genEngineScenario(runSeed, tier, 10)
	g := gen.New(runSeed ^ 0xc30)
	for i := range sc.Requests {
		sc.Requests[i].Kind = "expand"
		sc.Requests[i].User = ""
		sc.Requests[i].Ctx = nil
		// contextual tuples that repeat stored tuples of the expanded object and relation (any of them,
		// not only the first the datastore returns): a user must still be listed once
		if g.Chance(0.4) {
			var same []rm.Tuple
			for _, t := range sc.Tuples {
				if t.Obj == sc.Requests[i].Obj && t.Rel == sc.Requests[i].Rel && sc.Model.ValidForWrite(t) && !sc.Model.AmbiguousCondShape(t) {
					same = append(same, t)
				}
			}
			g.R.Shuffle(len(same), func(a, b int) { same[a], same[b] = same[b], same[a] })
			have := map[string]bool{}
			for _, t := range sc.Requests[i].CtxTuples {
				have[t.Key()] = true
			}
			for k := 0; k < len(same) && k < 1+g.Intn(3); k++ {
				if !have[same[k].Key()] {
					sc.Requests[i].CtxTuples = append(sc.Requests[i].CtxTuples, same[k])
				}
			}
		}
	}
	// several stored tuples on the objects that get expanded
	if len(sc.Requests) > 0 && g.Chance(0.6) {
		have := map[string]bool{}
		for _, t := range sc.Tuples {
			have[t.Key()] = true
		}
		for _, t := range g.Tuples(sc.Model, 30, 0) {
			r := gen.Pick(g, sc.Requests)
			t.Obj, t.Rel = r.Obj, r.Rel
			if !have[t.Key()] && sc.Model.ValidForWrite(t) && !sc.Model.AmbiguousCondShape(t) {
				have[t.Key()] = true
				sc.Tuples = append(sc.Tuples, t)
			}
		}
	}
	if g.Chance(0.25) {
		sc.Knobs["faults"] = int64(simstore.FaultOpenErr | simstore.FaultIterErr)
	}
	return sc
}

func c30Exec(t *testing.T, sc *gen.Scenario, trace bool) *harness.Outcome {
	return runBubble(t, sc, trace, func(e *Env) {
		s, err := e.NewServer()
		if err != nil {
			e.Out.Infra = "server: " + err.Error()
			return
		}
		faulty := sc.Knob("faults", 0) != 0
		for i, rq := range sc.Requests {
			ctx, cancel := reqCtx(i, "", 10*time.Second)
			got, err := e.SrvExpand(ctx, s, rq)
			cancel()
			e.Out.Evals++
			e.Run.Log("resp", fmt.Sprintf("r%d err=%v", i, err != nil))
			if err != nil {
				if faulty {
					simrt.Probe("error_under_fault")
					continue
				}
				e.Violate("unexpected_error:"+errKind(err), "err="+errSig(err), "expand(%s#%s): %v", rq.Obj, rq.Rel, err)
				return
			}
			want := RefExpand(stateFor(sc, rq), rq.Obj, rq.Rel)
			if got != want {
				sig := "rewrite="
				if rel := sc.Model.Rel(rm.ObjType(rq.Obj), rq.Rel); rel != nil {
					sig += RewriteShape(rel.Rewrite)
				}
				e.Violate("tree_mismatch", sig, "expand(%s#%s ctxt=%v):\n got  %s\n want %s", rq.Obj, rq.Rel, rq.CtxTuples, got, want)
				return
			}
			if strings.Contains(got, "users[") && !strings.Contains(got, "users[]") {
				simrt.Probe("expand_nonempty_leaf")
			}
		}
		e.Out.NonTrivial = len(sc.Tuples) > 0 && e.Out.Evals > 0
	})
}

// ---------------------------------------------------------------- C32 AuthZEN

func c32Gen(runSeed uint64, tier string) *gen.Scenario {
	// batch sizes on both sides of ten (correlation ids are decimal strings) and of the per-batch limit's half
	nChecks := []int{8, 8, 13, 26}[gen.New(runSeed^0xc32c).Intn(4)]
	sc := genEngineScenario(runSeed, tier, nChecks)
	g := gen.New(runSeed ^ 0xc32)
	var reqs []gen.Request
	for _, r := range sc.Requests {
		r.CtxTuples = nil
		if rm.IsUserset(r.User) {
			continue // AuthZEN subjects are type:id
		}
		reqs = append(reqs, r)
	}
	lo := g.ListObjectsRequests(sc.Model, 3, [3]float64{1, 0, 0})
	lu := g.ListUsersRequests(sc.Model, 3)
	for i := range lu {
		if strings.Contains(lu[i].Filter, "#") {
			lu[i].Filter = "user"
		}
	}
	sc.Requests = append(append(reqs, lo...), lu...)
	sc.Knobs["authzen"] = 1
	sc.Knobs["level"] = 1
	sc.Knobs["semantic"] = int64(g.Intn(3))
	if g.Chance(0.2) {
		sc.Knobs["faults"] = int64(simstore.FaultOpenErr | simstore.FaultIterErr)
	}
	return sc
}

func c32Exec(t *testing.T, sc *gen.Scenario, trace bool) *harness.Outcome {
	return runBubble(t, sc, trace, func(e *Env) {
		s, err := e.NewServer(server.WithExperimentals(Experimentals(sc)...))
		if err != nil {
			e.Out.Infra = "server: " + err.Error()
			return
		}
		faulty := sc.Knob("faults", 0) != 0
		subj := func(u string) *authzenv1.Subject {
			t, id, _ := rm.SplitUser(u)
			return &authzenv1.Subject{Type: t, Id: id}
		}
		res := func(o string) *authzenv1.Resource {
			t, id, _ := rm.SplitUser(o)
			return &authzenv1.Resource{Type: t, Id: id}
		}
		var checks []gen.Request
		for i, rq := range sc.Requests {
			st := stateFor(sc, rq)
			switch rq.Kind {
			case "check":
				checks = append(checks, rq)
				ctx, cancel := reqCtx(i, ".az", 10*time.Second)
				az, errA := s.Evaluation(ctx, &authzenv1.EvaluationRequest{StoreId: e.StoreID, Subject: subj(rq.User), Resource: res(rq.Obj), Action: &authzenv1.Action{Name: rq.Rel}, Context: rm.MustStruct(rq.Ctx)})
				cancel()
				ctx, cancel = reqCtx(i, ".native", 10*time.Second)
				nat, errN := e.SrvCheck(ctx, s, rq)
				cancel()
				e.Run.Log("resp", fmt.Sprintf("r%d az=%v/%v native=%v/%v", i, az.GetDecision(), errA != nil, nat, errN != nil))
				// both answers are judged against the reference first, so that a known engine defect is
				// reported (and recognised) as such rather than as a disagreement of the two surfaces
				if errA == nil {
					e.JudgeCheck("authzen", rq, st, az.GetDecision(), nil, faulty)
				} else {
					e.JudgeCheck("authzen", rq, st, false, errA, faulty)
				}
				if e.Out.Violation == nil {
					e.JudgeCheck("native", rq, st, nat, errN, faulty)
				}
				if e.Out.Violation != nil {
					return
				}
				if errA == nil && errN == nil && az.GetDecision() != nat {
					e.Violate("evaluation_differs_from_check", shapeSig(sc.Model, rq), "evaluation(%s %s %s)=%v but native check=%v", rq.User, rq.Rel, rq.Obj, az.GetDecision(), nat)
					return
				}
				if (errA == nil) != (errN == nil) && !faulty && len(st.Unevaluable(rq.Ctx)) == 0 {
					e.Violate("evaluation_error_mismatch", "", "evaluation(%s %s %s) err=%v, native err=%v", rq.User, rq.Rel, rq.Obj, errA, errN)
					return
				}
			case "listobjects":
				ctx, cancel := reqCtx(i, ".az", 10*time.Second)
				az, errA := s.ResourceSearch(ctx, &authzenv1.ResourceSearchRequest{StoreId: e.StoreID, Subject: subj(rq.User), Resource: &authzenv1.ResourceFilter{Type: rq.Type}, Action: &authzenv1.Action{Name: rq.Rel}, Context: rm.MustStruct(rq.Ctx)})
				cancel()
				var got []string
				for _, r := range az.GetResults() {
					got = append(got, r.GetType()+":"+r.GetId())
				}
				ctx, cancel = reqCtx(i, ".native", 10*time.Second)
				nat, errN := e.SrvListObjects(ctx, s, rq, false)
				cancel()
				e.Run.Log("resp", fmt.Sprintf("r%d az=%d/%v native=%d/%v", i, len(got), errA != nil, len(nat), errN != nil))
				e.JudgeListObjects("authzen", rq, st, got, errA, faulty, 0, false)
				if e.Out.Violation == nil {
					e.JudgeListObjects("native", rq, st, nat, errN, faulty, 0, false)
				}
				if e.Out.Violation != nil {
					return
				}
				if errA == nil && errN == nil && !faulty && len(st.Unevaluable(rq.Ctx)) == 0 && strings.Join(sorted(got), ",") != strings.Join(sorted(nat), ",") {
					e.Violate("resource_search_differs", "", "resourcesearch(%s %s %s)=%v but native listobjects=%v", rq.User, rq.Rel, rq.Type, sorted(got), sorted(nat))
					return
				}
			case "listusers":
				ctx, cancel := reqCtx(i, ".az", 10*time.Second)
				tAz := time.Now()
				az, errA := s.SubjectSearch(ctx, &authzenv1.SubjectSearchRequest{StoreId: e.StoreID, Subject: &authzenv1.SubjectFilter{Type: rq.Filter}, Resource: res(rq.Obj), Action: &authzenv1.Action{Name: rq.Rel}, Context: rm.MustStruct(rq.Ctx)})
				cancel()
				var got []string
				for _, r := range az.GetResults() {
					got = append(got, r.GetType()+":"+r.GetId())
				}
				e.Truncated = time.Since(tAz) >= 3*time.Second
				azTruncated := e.Truncated
				ctx, cancel = reqCtx(i, ".native", 10*time.Second)
				nat, errN := e.SrvListUsers(ctx, s, rq)
				cancel()
				e.Run.Log("resp", fmt.Sprintf("r%d az=%d/%v native=%d/%v", i, len(got), errA != nil, len(nat), errN != nil))
				natTruncated := e.Truncated
				e.Truncated = azTruncated
				e.JudgeListUsers("authzen", rq, st, got, errA, faulty)
				if e.Out.Violation == nil {
					e.Truncated = natTruncated
					e.JudgeListUsers("native", rq, st, nat, errN, faulty)
				}
				if e.Out.Violation != nil {
					return
				}
				if errA == nil && errN == nil && !faulty && !azTruncated && !natTruncated && len(st.Unevaluable(rq.Ctx)) == 0 && strings.Join(sorted(got), ",") != strings.Join(sorted(nat), ",") {
					// ListUsers itself has more than one correct answer for some states (a user who is also
					// covered by a returned wildcard may or may not be listed, depending on which branch
					// finishes first; C06 admits both). "The same results as ListUsers" can then only mean "a
					// result ListUsers gives": the native call is repeated under other schedules, and only an
					// AuthZEN answer the native API never gives is a disagreement.
					matched := ListUsersEquivalent(got, nat)
					for k := 0; k < 6 && !matched; k++ {
						ctx, cancel := reqCtx(i, fmt.Sprintf(".native%d", k+2), 10*time.Second)
						again, errR := e.SrvListUsers(ctx, s, rq)
						cancel()
						matched = errR == nil && strings.Join(sorted(again), ",") == strings.Join(sorted(got), ",")
					}
					if matched {
						simrt.Probe("native_listusers_schedule_dependent")
					} else {
						e.Violate("subject_search_differs", "", "subjectsearch(%s %s filter=%s)=%v but native listusers=%v (and in 6 more native calls under other schedules)", rq.Obj, rq.Rel, rq.Filter, sorted(got), sorted(nat))
						return
					}
				}
			}
			if e.Out.Violation != nil {
				return
			}
		}
		// batched evaluations with the three semantics
		if len(checks) > 1 {
			sem := []authzenv1.EvaluationsSemantic{authzenv1.EvaluationsSemantic_execute_all, authzenv1.EvaluationsSemantic_deny_on_first_deny, authzenv1.EvaluationsSemantic_permit_on_first_permit}[sc.Knob("semantic", 0)]
			req := &authzenv1.EvaluationsRequest{StoreId: e.StoreID, Options: &authzenv1.EvaluationsOptions{EvaluationsSemantic: sem}}
			for _, rq := range checks {
				req.Evaluations = append(req.Evaluations, &authzenv1.EvaluationsItemRequest{Subject: subj(rq.User), Resource: res(rq.Obj), Action: &authzenv1.Action{Name: rq.Rel}, Context: rm.MustStruct(rq.Ctx)})
			}
			ctx, cancel := reqCtx(900, ".evals", 10*time.Second)
			resp, err := s.Evaluations(ctx, req)
			cancel()
			if err != nil {
				if !faulty {
					e.Violate("evaluations_failed", "err="+errSig(err), "evaluations(%d items): %v", len(checks), err)
				}
				return
			}
			if sem == authzenv1.EvaluationsSemantic_execute_all && len(resp.GetEvaluations()) != len(checks) {
				e.Violate("evaluations_count", "", "execute_all returned %d results for %d items", len(resp.GetEvaluations()), len(checks))
				return
			}
			for i, r := range resp.GetEvaluations() {
				if i >= len(checks) {
					e.Violate("evaluations_count", "", "more results than items")
					return
				}
				rq := checks[i]
				if r.GetContext() != nil && !r.GetDecision() {
					// per-item error
					e.JudgeCheck("authzen-batch", rq, stateFor(sc, rq), false, fmt.Errorf("item error: %v", r.GetContext().AsMap()), faulty || true)
					continue
				}
				e.JudgeCheck("authzen-batch", rq, stateFor(sc, rq), r.GetDecision(), nil, faulty)
				if e.Out.Violation != nil {
					return
				}
				last := i == len(resp.GetEvaluations())-1
				if !last {
					if sem == authzenv1.EvaluationsSemantic_deny_on_first_deny && !r.GetDecision() {
						e.Violate("short_circuit", "", "deny_on_first_deny continued after a deny at item %d", i)
						return
					}
					if sem == authzenv1.EvaluationsSemantic_permit_on_first_permit && r.GetDecision() {
						e.Violate("short_circuit", "", "permit_on_first_permit continued after a permit at item %d", i)
						return
					}
				}
			}
			simrt.Probe("evaluations_batch")
		}
		e.Out.NonTrivial = len(sc.Tuples) > 0 && e.Out.Evals > 0
	})
}

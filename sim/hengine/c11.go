package hengine

import (
	"context"
	"fmt"
	"strings"
	"testing"
	"time"

	openfgav1 "github.com/openfga/api/proto/openfga/v1"

	"github.com/openfga/openfga/internal/verifsim/gen"
	"github.com/openfga/openfga/internal/verifsim/harness"
	rm "github.com/openfga/openfga/internal/verifsim/refmodel"
	"github.com/openfga/openfga/internal/verifsim/simrt"
	"github.com/openfga/openfga/internal/verifsim/simstore"
	"github.com/openfga/openfga/pkg/server"
)

// C11: the cache controller bounds staleness. One Server with the cache controller and EITHER the
// Check query cache OR the iterator caches (Check and ListObjects) over a SimCache on the virtual
// clock. History: warm-up requests, writes and deletes through Server.Write (single tuples and bulk
// writes of more than one changelog page), clock advances around the iterator-cache TTL window
// (so that the controller takes its "partial" path), requests in between (which populate the caches
// between two changes), and "sync" steps.
//
// A sync step triggers the controller with a request and waits, on the virtual clock, until an
// invalidation run whose changelog read was ENTERED after the last write had returned has finished
// (the SimDatastore records when each ReadChanges call was entered and when it finished; the rest of
// a run does not block, one extra virtual millisecond is allowed for it). From then on, and until
// the next write, every answer must equal the reference answer on the CURRENT tuples: an answer that
// only tuples from before the write explain was computed from cache entries populated before it.
// Before any write every answer must be exact as well (invalidation never causes a wrong answer).
// Requests between a write and the next completed run are not judged (the property allows them to
// be stale, and with per-iterator caching they may mix old and new sub-results).
func c11Gen(runSeed uint64, tier string) *gen.Scenario {
	sc := genEngineScenario(runSeed, tier, 0)
	g := gen.New(runSeed ^ 0xc11)
	var stored, pool []rm.Tuple
	seen := map[string]bool{}
	for _, t := range sc.Tuples {
		if !sc.Model.ValidForWrite(t) || sc.Model.AmbiguousCondShape(t) || seen[t.Key()] {
			continue
		}
		seen[t.Key()] = true
		if g.Chance(0.5) {
			pool = append(pool, t)
		} else {
			stored = append(stored, t)
		}
	}
	sc.Tuples = stored
	var bulk []rm.Tuple
	for _, t := range g.WideTuples(sc.Model, 70, 0) {
		if sc.Model.ValidForWrite(t) && !sc.Model.AmbiguousCondShape(t) && !seen[t.Key()] {
			seen[t.Key()] = true
			bulk = append(bulk, t)
		}
	}
	reqs := overlappingChecks(g, sc, 8)
	if len(reqs) == 0 {
		return sc
	}
	mode := g.Intn(3)
	sc.Knobs["mode"] = int64(mode)
	iterTTL := []int64{50, 2000, 60000}[g.Intn(3)]
	sc.Knobs["iter_ttl_ms"] = iterTTL
	sc.Knobs["ctl_ttl_us"] = []int64{1, 1, 5000, 1000000}[g.Intn(4)]
	sc.Knobs["iter_max"] = []int64{2, 1000}[g.Intn(2)]
	asKind := func(r gen.Request) gen.Request {
		if mode == 2 || (mode == 1 && g.Chance(0.3)) {
			return gen.Request{Kind: "listobjects", Type: rm.ObjType(r.Obj), Rel: r.Rel, User: r.User, Ctx: r.Ctx}
		}
		return r
	}
	var ops []gen.Op
	some := func(p float64, about *rm.Tuple) {
		for _, r := range reqs {
			if g.Chance(p) {
				r := r
				if about != nil && g.Chance(0.6) {
					r.Obj, r.Rel = about.Obj, about.Rel
					if !rm.IsUserset(about.User) && !rm.IsWildcard(about.User) {
						r.User = about.User
					}
				}
				rr := asKind(r)
				ops = append(ops, gen.Op{Kind: "req", Req: &rr})
			}
		}
	}
	nap := func() {
		// sleeps relative to the iterator-cache TTL window: well inside, just inside, just outside
		d := []int64{iterTTL / 10, iterTTL * 9 / 10, iterTTL + 1, iterTTL * 2}[g.Intn(4)]
		if d > 5000 {
			d = 5000 + int64(g.Intn(2000))
		}
		ops = append(ops, gen.Op{Kind: "sleep", Dur: d * int64(time.Millisecond)})
	}
	present := map[string]bool{}
	some(0.6, nil)
	rounds := 2 + g.Intn(4)
	for r := 0; r < rounds && len(pool) > 0; r++ {
		nw := 1 + g.Intn(3)
		var last *rm.Tuple
		for w := 0; w < nw; w++ {
			t := gen.Pick(g, pool)
			last = &t
			if present[t.Key()] {
				ops = append(ops, gen.Op{Kind: "write", Deletes: []rm.Tuple{t}})
				present[t.Key()] = false
			} else {
				ops = append(ops, gen.Op{Kind: "write", Writes: []rm.Tuple{t}})
				present[t.Key()] = true
			}
			if g.Chance(0.15) && len(bulk) >= 60 {
				// more changes than one changelog page (50) holds; the server caps a write at 100 tuples
				ops = append(ops, gen.Op{Kind: "write", Writes: bulk[:60]})
				bulk = bulk[60:]
			}
			if g.Chance(0.5) {
				nap()
			}
			if g.Chance(0.5) {
				some(0.3, last) // populate caches between two changes
			}
			if g.Chance(0.3) {
				ops = append(ops, gen.Op{Kind: "sync"})
				some(0.3, last)
			}
		}
		if g.Chance(0.4) {
			nap()
		}
		ops = append(ops, gen.Op{Kind: "sync"})
		some(0.7, last)
	}
	sc.Ops = ops
	sc.Knobs["level"] = 1
	if g.Chance(0.2) {
		sc.Knobs["evict_pm"] = 100
	}
	return sc
}

func c11Exec(t *testing.T, sc *gen.Scenario, trace bool) *harness.Outcome {
	return runBubble(t, sc, trace, func(e *Env) {
		mode := sc.Knob("mode", 0)
		iterTTL := time.Duration(sc.Knob("iter_ttl_ms", 2000)) * time.Millisecond
		ctlTTL := time.Duration(sc.Knob("ctl_ttl_us", 1)) * time.Microsecond
		cache := simstore.NewCache(e.Run)
		cache.EvictRate = float64(sc.Knob("evict_pm", 0)) / 1000
		iterMax := uint32(sc.Knob("iter_max", 1000))
		opts := []server.OpenFGAServiceV1Option{server.WithExperimentals(Experimentals(sc)...), server.WithCheckCache(cache),
			server.WithCacheControllerEnabled(true), server.WithCacheControllerTTL(ctlTTL)}
		if mode == 0 {
			opts = append(opts, server.WithCheckQueryCacheEnabled(true), server.WithCheckQueryCacheTTL(time.Minute))
		} else {
			opts = append(opts, server.WithCheckIteratorCacheEnabled(true), server.WithCheckIteratorCacheTTL(iterTTL), server.WithCheckIteratorCacheMaxResults(iterMax),
				server.WithListObjectsIteratorCacheEnabled(true), server.WithListObjectsIteratorCacheTTL(iterTTL), server.WithListObjectsIteratorCacheMaxResults(iterMax))
		}
		s, err := e.NewServer(opts...)
		if err != nil {
			e.Out.Infra = "server: " + err.Error()
			return
		}
		cur := append([]rm.Tuple(nil), sc.Tuples...)
		lastWriteDone := time.Duration(-1)
		guaranteed := true // nothing written yet: every answer must be exact
		nWrites := 0
		// the request that triggers the controller in a sync step asks about an object and a user no
		// tuple mentions: the controller is only ever started by a request, and that request is itself
		// served while the invalidation is still pending; it must not share sub-problems with the
		// judged requests (see finding F33)
		var firstReq *gen.Request
		for _, op := range sc.Ops {
			if op.Kind == "req" {
				typ := rm.ObjType(op.Req.Obj)
				if typ == "" {
					typ = op.Req.Type
				}
				firstReq = &gen.Request{Kind: "check", Obj: typ + ":zzsync", Rel: op.Req.Rel, User: "user:zzsync"}
				break
			}
		}
		servedWhilePending := false
		for i, op := range sc.Ops {
			switch op.Kind {
			case "sleep":
				time.Sleep(time.Duration(op.Dur) + 1)
			case "write":
				ctx, cancel := reqCtx(i, ".write", 10*time.Second)
				err := e.serverWrite(ctx, s, op)
				cancel()
				e.Run.Log("write", fmt.Sprintf("op%d w=%d d=%d err=%v", i, len(op.Writes), len(op.Deletes), err != nil))
				if err != nil {
					e.Out.Infra = fmt.Sprintf("write of valid tuples failed: %v", err)
					return
				}
				cur = applyWrite(cur, op)
				lastWriteDone = e.Run.Elapsed()
				guaranteed = false
				nWrites++
				simrt.Probe("writes")
			case "sync":
				if lastWriteDone < 0 || firstReq == nil {
					break
				}
				ok := false
				for attempt := 0; attempt < 4 && !ok; attempt++ {
					ctx, cancel := reqCtx(i, fmt.Sprintf(".trigger%d", attempt), 10*time.Second)
					_ = e.issue(ctx, s, e.StoreID, *firstReq)
					cancel()
					for k := 0; k < 40 && !ok; k++ {
						for _, cr := range e.DS.ChangesReads() {
							if cr.Store == "S1" && cr.Desc && cr.Entered > lastWriteDone {
								ok = true
							}
						}
						if !ok {
							time.Sleep(100 * time.Microsecond)
						}
					}
					if !ok {
						time.Sleep(ctlTTL + time.Millisecond)
					}
				}
				if ok {
					time.Sleep(time.Millisecond) // the rest of the run (cache writes) does not block
					guaranteed = true
					simrt.Probe("invalidation_runs_awaited")
				} else {
					simrt.Probe("sync_without_invalidation_run")
				}
			case "req":
				rq := *op.Req
				ctx, cancel := reqCtx(i, "", 10*time.Second)
				a := e.issue(ctx, s, e.StoreID, rq)
				cancel()
				e.Run.Log("resp", fmt.Sprintf("op%d guaranteed=%v %s %v", i, guaranteed, rq.Kind, a))
				if e.Hung {
					return
				}
				if !guaranteed {
					simrt.Probe("requests_not_judged_before_invalidation")
					servedWhilePending = true
					break
				}
				st := rm.NewState(sc.Model, cur)
				if a.err {
					if len(st.Unevaluable(rq.Ctx)) == 0 {
						simrt.Probe("request_error")
					}
					break
				}
				tag := " after_invalidation"
				if nWrites == 0 {
					tag = " before_any_write"
				}
				e.SigExtra = tag
				switch rq.Kind {
				case "check":
					e.JudgeCheck("cached", rq, st, a.s == "true", nil, false)
				case "listobjects":
					var got []string
					if a.s != "" {
						got = strings.Split(a.s, ",")
					}
					e.JudgeListObjects("cached", rq, st, got, nil, false, 0, false)
				}
				e.SigExtra = ""
				if v := e.Out.Violation; v != nil {
					if rq.Kind == "check" && !strings.Contains(v.Sig, tag) {
						v.Sig += tag
					}
					v.Sig += fmt.Sprintf(" mode=%d", mode)
					if servedWhilePending && mode == 0 {
						// an earlier request was answered between a write and the completion of the
						// invalidation run; what it derived from stale entries was cached with a fresh stamp
						v.Sig += " request_served_while_invalidation_pending"
					}
					if cache.ControlEvictions > 0 {
						v.Sig += " controller_record_evicted"
					}
					v.Detail = fmt.Sprintf("op %d (%d writes so far, last returned at %v, now %v): ", i, nWrites, lastWriteDone, e.Run.Elapsed()) + v.Detail
					return
				}
			}
		}
		st := cache.Stats()
		simrt.ProbeN("cache_hits", st["hit"])
		e.Out.NonTrivial = e.Out.Evals > 0 && nWrites > 0
	})
}

var _ = openfgav1.TupleOperation_TUPLE_OPERATION_WRITE
var _ context.Context

package hengine

import (
	"context"
	"encoding/base64"
	"fmt"
	"runtime"
	"strings"
	"testing"
	"time"

	openfgav1 "github.com/openfga/api/proto/openfga/v1"
	"google.golang.org/grpc/status"
	"google.golang.org/protobuf/proto"
	"google.golang.org/protobuf/types/known/wrapperspb"
	"google.golang.org/protobuf/types/known/structpb"

	"github.com/openfga/openfga/internal/verifsim/gen"
	"github.com/openfga/openfga/internal/verifsim/harness"
	rm "github.com/openfga/openfga/internal/verifsim/refmodel"
	"github.com/openfga/openfga/internal/verifsim/simrt"
	"github.com/openfga/openfga/pkg/tuple"
)

// C19: malformed or hostile input never crashes the server.
//
// Per run: a hostile authorization model (a generated valid model with 1-3 mutations: deep nesting,
// cycles made only of tuple-to-userset or computed hops, nil protobuf fields, adversarial names,
// broken metadata, adversarial CEL conditions, odd schema versions) is offered to
// WriteAuthorizationModel and, in a third of the runs, stored behind the validator's back; hostile
// tuples are stored raw; then 14 requests (Check, BatchCheck, ListObjects, ListUsers, Expand, Write,
// Read, ReadChanges, WriteAssertions) with adversarial strings, deeply nested / wide contexts and
// hostile contextual tuples are issued with a 2 s deadline.
// Oracle: the process survives (a dead worker is replayed by the orchestrator: dying again is the
// violation), no panic reaches the caller, every call returns within its deadline + slack of virtual
// time and without the stuck-run watchdog firing, no call allocates more than 1.5 GB.
var hostileStrings = []string{"", " ", ":", "#", "@", "*", "a:b:c", "doc:", ":1", "doc:1#", "#viewer", "user:*#member", "doc:1#viewer#viewer",
	"ｕｓｅｒ:ａ", "user:\x00", "user:\n", "doc:1 ", "doc:" + strings.Repeat("x", 300), strings.Repeat("t", 300) + ":1", "user:a@b", "doc:../../etc", "doc:%s%s%n", "user:😀", "DOC:1", "doc:1:*"}

func hostileModel(g *gen.G, base *openfgav1.AuthorizationModel) *openfgav1.AuthorizationModel {
	m := proto.Clone(base).(*openfgav1.AuthorizationModel)
	this := func() *openfgav1.Userset {
		return &openfgav1.Userset{Userset: &openfgav1.Userset_This{This: &openfgav1.DirectUserset{}}}
	}
	computed := func(r string) *openfgav1.Userset {
		return &openfgav1.Userset{Userset: &openfgav1.Userset_ComputedUserset{ComputedUserset: &openfgav1.ObjectRelation{Relation: r}}}
	}
	ttu := func(ts, r string) *openfgav1.Userset {
		return &openfgav1.Userset{Userset: &openfgav1.Userset_TupleToUserset{TupleToUserset: &openfgav1.TupleToUserset{Tupleset: &openfgav1.ObjectRelation{Relation: ts}, ComputedUserset: &openfgav1.ObjectRelation{Relation: r}}}}
	}
	union := func(c ...*openfgav1.Userset) *openfgav1.Userset {
		return &openfgav1.Userset{Userset: &openfgav1.Userset_Union{Union: &openfgav1.Usersets{Child: c}}}
	}
	inter := func(c ...*openfgav1.Userset) *openfgav1.Userset {
		return &openfgav1.Userset{Userset: &openfgav1.Userset_Intersection{Intersection: &openfgav1.Usersets{Child: c}}}
	}
	diff := func(a, b *openfgav1.Userset) *openfgav1.Userset {
		return &openfgav1.Userset{Userset: &openfgav1.Userset_Difference{Difference: &openfgav1.Difference{Base: a, Subtract: b}}}
	}
	ref := func(t string) *openfgav1.RelationReference { return &openfgav1.RelationReference{Type: t} }
	md := func(rs ...*openfgav1.RelationReference) *openfgav1.RelationMetadata {
		return &openfgav1.RelationMetadata{DirectlyRelatedUserTypes: rs}
	}
	addType := func(name string, rels map[string]*openfgav1.Userset, mds map[string]*openfgav1.RelationMetadata) {
		m.TypeDefinitions = append(m.TypeDefinitions, &openfgav1.TypeDefinition{Type: name, Relations: rels, Metadata: &openfgav1.Metadata{Relations: mds}})
	}
	var anyTD *openfgav1.TypeDefinition
	for _, td := range m.GetTypeDefinitions() {
		if len(td.GetRelations()) > 0 {
			anyTD = td
		}
	}
	firstRel := ""
	if anyTD != nil {
		for r := range anyTD.GetRelations() {
			if firstRel == "" || r < firstRel {
				firstRel = r
			}
		}
	}
	n := 1 + g.Intn(3)
	for k := 0; k < n; k++ {
		switch g.Intn(14) {
		case 0: // deep nesting
			if anyTD != nil {
				d := []int{10, 200, 3000}[g.Intn(3)]
				u := this()
				for i := 0; i < d; i++ {
					switch g.Intn(3) {
					case 0:
						u = union(u, computed(firstRel))
					case 1:
						u = inter(u, this()) // a chain: sharing u twice would make the message exponentially large
					default:
						u = diff(u, this())
					}
				}
				anyTD.Relations["zdeep"] = u
				setMD(anyTD, "zdeep", md(ref("user")))
			}
		case 1, 2: // cycles made only of tuple-to-userset hops across types, operand order varied
			l := 2 + g.Intn(2)
			for i := 0; i < l; i++ {
				next := fmt.Sprintf("zc%d", (i+1)%l)
				var rw *openfgav1.Userset
				switch g.Intn(5) {
				case 0:
					rw = union(ttu("link", "viewer"), this())
				case 1:
					rw = union(this(), ttu("link", "viewer"))
				case 2:
					rw = inter(ttu("link", "viewer"), this())
				case 3:
					rw = diff(this(), ttu("link", "viewer"))
				default:
					rw = ttu("link", "viewer") // no entry point at all
				}
				addType(fmt.Sprintf("zc%d", i), map[string]*openfgav1.Userset{"link": this(), "viewer": rw},
					map[string]*openfgav1.RelationMetadata{"link": md(ref(next)), "viewer": md(ref("user"))})
			}
		case 3: // computed cycles
			addType("zk", map[string]*openfgav1.Userset{"a": computed("b"), "b": union(computed("c"), computed("a")), "c": inter(computed("a"), this())},
				map[string]*openfgav1.RelationMetadata{"a": md(), "b": md(), "c": md(ref("user"))})
		case 4: // nil fields
			if anyTD != nil {
				switch g.Intn(6) {
				case 0:
					anyTD.Relations["znil"] = nil
				case 1:
					anyTD.Relations["znil"] = &openfgav1.Userset{}
				case 2:
					anyTD.Relations["znil"] = union(this(), nil)
				case 3:
					anyTD.Relations["znil"] = diff(nil, this())
				case 4:
					anyTD.Relations["znil"] = &openfgav1.Userset{Userset: &openfgav1.Userset_TupleToUserset{TupleToUserset: &openfgav1.TupleToUserset{}}}
				case 5:
					anyTD.Relations["znil"] = &openfgav1.Userset{Userset: &openfgav1.Userset_Union{}}
				}
				if g.Chance(0.5) {
					anyTD.Metadata = nil
				}
			}
		case 5: // adversarial names
			name := gen.Pick(g, hostileStrings)
			addType(name, map[string]*openfgav1.Userset{gen.Pick(g, hostileStrings): this()}, map[string]*openfgav1.RelationMetadata{})
		case 6: // broken metadata
			if anyTD != nil && anyTD.GetMetadata() != nil {
				anyTD.Relations["zmeta"] = this()
				setMD(anyTD, "zmeta", md(
					&openfgav1.RelationReference{Type: "nosuchtype"},
					&openfgav1.RelationReference{Type: "user", Condition: "nosuchcondition"},
					&openfgav1.RelationReference{Type: "user", RelationOrWildcard: &openfgav1.RelationReference_Relation{Relation: "nosuchrel"}},
					nil))
			}
		case 7, 8: // adversarial conditions
			if m.Conditions == nil {
				m.Conditions = map[string]*openfgav1.Condition{}
			}
			expr := gen.Pick(g, []string{"", "1", "x <", strings.Repeat("(", 400) + "true" + strings.Repeat(")", 400),
				"[1,2,3].all(a, [1,2,3].all(b, [1,2,3].all(c, [1,2,3].all(d, true))))", "x + x + x + x == x", "x.matches('(a+)+$')",
				"size(l) > 0 && l.exists(e, l.exists(f, e == f))", "true ? true : false", "x in l", "timestamp(x) > timestamp('2020-01-01T00:00:00Z')", "1/0 == 1", "x[99999999999] == 1"})
			params := map[string]*openfgav1.ConditionParamTypeRef{
				"x": {TypeName: openfgav1.ConditionParamTypeRef_TYPE_NAME_STRING},
				"l": {TypeName: openfgav1.ConditionParamTypeRef_TYPE_NAME_LIST, GenericTypes: []*openfgav1.ConditionParamTypeRef{{TypeName: openfgav1.ConditionParamTypeRef_TYPE_NAME_STRING}}}}
			switch g.Intn(4) {
			case 0:
				params["x"] = &openfgav1.ConditionParamTypeRef{TypeName: openfgav1.ConditionParamTypeRef_TYPE_NAME_UNSPECIFIED}
			case 1:
				params["l"] = &openfgav1.ConditionParamTypeRef{TypeName: openfgav1.ConditionParamTypeRef_TYPE_NAME_LIST}
			case 2:
				params["m"] = &openfgav1.ConditionParamTypeRef{TypeName: openfgav1.ConditionParamTypeRef_TYPE_NAME_MAP, GenericTypes: []*openfgav1.ConditionParamTypeRef{nil}}
			}
			m.Conditions["zcond"] = &openfgav1.Condition{Name: gen.Pick(g, []string{"zcond", "other", ""}), Expression: expr, Parameters: params}
			if anyTD != nil && anyTD.GetMetadata() != nil {
				anyTD.Relations["zcr"] = this()
				setMD(anyTD, "zcr", md(&openfgav1.RelationReference{Type: "user", Condition: "zcond"}))
			}
		case 9:
			m.SchemaVersion = gen.Pick(g, []string{"", "1.0", "1.2", "9", "1.1 "})
		case 10: // many relations / types
			rels := map[string]*openfgav1.Userset{}
			mds := map[string]*openfgav1.RelationMetadata{}
			for i := 0; i < 150; i++ {
				r := fmt.Sprintf("r%03d", i)
				rels[r] = computed(fmt.Sprintf("r%03d", (i+1)%150))
				mds[r] = md()
			}
			rels["r149"] = this()
			mds["r149"] = md(ref("user"))
			addType("zmany", rels, mds)
		case 11: // duplicate type definitions
			if anyTD != nil {
				m.TypeDefinitions = append(m.TypeDefinitions, proto.Clone(anyTD).(*openfgav1.TypeDefinition))
			}
		case 12: // nil type definition / empty model
			if g.Chance(0.5) {
				m.TypeDefinitions = append(m.TypeDefinitions, nil)
			} else {
				m.TypeDefinitions = nil
			}
		case 13: // tupleset relation that is not direct, wildcard on tupleset
			addType("zt", map[string]*openfgav1.Userset{"ts": union(this(), computed("v")), "v": ttu("ts", "v")},
				map[string]*openfgav1.RelationMetadata{"ts": md(&openfgav1.RelationReference{Type: "zt", RelationOrWildcard: &openfgav1.RelationReference_Wildcard{Wildcard: &openfgav1.Wildcard{}}}), "v": md()})
		}
	}
	return m
}

func setMD(td *openfgav1.TypeDefinition, rel string, m *openfgav1.RelationMetadata) {
	if td.Metadata == nil {
		td.Metadata = &openfgav1.Metadata{}
	}
	if td.Metadata.Relations == nil {
		td.Metadata.Relations = map[string]*openfgav1.RelationMetadata{}
	}
	td.Metadata.Relations[rel] = m
}

func c19Gen(runSeed uint64, tier string) *gen.Scenario {
	sc := genEngineScenario(runSeed, tier, 6)
	g := gen.New(runSeed ^ 0xc19)
	hm := hostileModel(g, sc.Model.ToProto())
	b, _ := proto.Marshal(hm)
	sc.Note = base64.StdEncoding.EncodeToString(b)
	sc.Knobs["store_model_raw"] = int64(map[bool]int{true: 1, false: 0}[g.Chance(0.35)])
	sc.Knobs["lo_engine"] = int64(g.Intn(4))
	sc.Knobs["v2"] = int64(g.Intn(2))
	sc.Knobs["level"] = 1
	// hostile stored tuples (written behind the validator's back)
	for i := 0; i < 4; i++ {
		if len(sc.Tuples) == 0 {
			break
		}
		t := gen.Pick(g, sc.Tuples)
		switch g.Intn(4) {
		case 0:
			t.User = gen.Pick(g, hostileStrings)
		case 1:
			t.Obj = gen.Pick(g, hostileStrings)
		case 2:
			t.Rel = gen.Pick(g, hostileStrings)
		case 3:
			t.User = t.Obj + "#" + t.Rel
		}
		sc.Ops = append(sc.Ops, gen.Op{Kind: "rawtuple", Writes: []rm.Tuple{t}})
	}
	base := sc.Requests
	sc.Requests = nil
	kinds := []string{"check", "check", "listobjects", "listusers", "expand", "batch", "write", "read", "changes", "assertions", "paging", "paging"}
	for i := 0; i < 14 && len(base) > 0; i++ {
		r := gen.Pick(g, base)
		r.Kind = gen.Pick(g, kinds)
		if r.Kind == "paging" {
			// a continuation token nobody issued: what a token decodes to is backend-specific (an offset, an
			// id, a serialised struct), so well-formed encodings of hostile payloads reach the backend
			r = gen.Request{Kind: "paging",
				Rel:   gen.Pick(g, []string{"ReadAuthorizationModels", "ListStores", "Read", "ReadChanges"}),
				Obj:   gen.Pick(g, []string{"-1", "0", "3", "99999", "9223372036854775807", "9223372036854775800", "-9223372036854775808", "18446744073709551616", "1e9", "0x10", " 7", "{}", "[]", "null", "{\"ulid\":\"x\",\"ObjectType\":\"\"}", "01HVXR1FST0RE0000000000001", "01HVXR1FST0RE0000000000001|doc", "|", "\x00", ""}),
				Type:  gen.Pick(g, []string{"std", "url", "rawurl", "plain"}),
				Limit: gen.Pick(g, []int{1, 2, 50, 100})}
			sc.Requests = append(sc.Requests, r)
			continue
		}
		r.Type = rm.ObjType(r.Obj)
		r.Filter = "user"
		switch g.Intn(8) {
		case 0:
			r.Obj = gen.Pick(g, hostileStrings)
		case 1:
			r.User = gen.Pick(g, hostileStrings)
		case 2:
			r.Rel = gen.Pick(g, hostileStrings)
		case 3:
			r.Type, r.Filter = gen.Pick(g, hostileStrings), gen.Pick(g, hostileStrings)
		case 4: // names from the hostile part of the model
			r.Obj, r.Rel, r.Type = gen.Pick(g, []string{"zc0:1", "zk:1", "zmany:1", "zt:1"}), gen.Pick(g, []string{"viewer", "a", "r000", "v", "zdeep", "znil", "zcr", "zmeta"}), gen.Pick(g, []string{"zc0", "zk", "zmany", "zt"})
		}
		// context shapes are encoded in Limit: 0 = as generated, else a hostile shape id
		if g.Chance(0.35) {
			r.Limit = 1 + g.Intn(7)
		}
		if g.Chance(0.25) {
			ct := gen.Pick(g, base)
			t := rm.Tuple{Obj: ct.Obj, Rel: ct.Rel, User: ct.User}
			switch g.Intn(3) {
			case 0:
				t.User = gen.Pick(g, hostileStrings)
			case 1:
				t.Obj = gen.Pick(g, hostileStrings)
			case 2:
				t.Cond = gen.Pick(g, []string{"zcond", "nosuch", ""})
			}
			r.CtxTuples = append(r.CtxTuples, t)
		}
		sc.Requests = append(sc.Requests, r)
	}
	return sc
}

func hostileContext(shape int) *structpb.Struct {
	deep := func(d int) *structpb.Value {
		v := structpb.NewStringValue("leaf")
		for i := 0; i < d; i++ {
			if i%2 == 0 {
				v = structpb.NewStructValue(&structpb.Struct{Fields: map[string]*structpb.Value{"k": v}})
			} else {
				v = structpb.NewListValue(&structpb.ListValue{Values: []*structpb.Value{v}})
			}
		}
		return v
	}
	switch shape {
	case 1:
		return &structpb.Struct{Fields: map[string]*structpb.Value{"x": deep(60)}}
	case 2:
		return &structpb.Struct{Fields: map[string]*structpb.Value{"x": deep(4000)}}
	case 3:
		var vs []*structpb.Value
		for i := 0; i < 20000; i++ {
			vs = append(vs, structpb.NewStringValue("v"))
		}
		return &structpb.Struct{Fields: map[string]*structpb.Value{"l": structpb.NewListValue(&structpb.ListValue{Values: vs})}}
	case 4:
		return &structpb.Struct{Fields: map[string]*structpb.Value{"x": structpb.NewStringValue(strings.Repeat("a", 200000)), "": structpb.NewNullValue(), "\x00": nil}}
	case 5:
		f := map[string]*structpb.Value{}
		for i := 0; i < 3000; i++ {
			f[fmt.Sprintf("k%d", i)] = structpb.NewNumberValue(float64(i))
		}
		return &structpb.Struct{Fields: f}
	case 7:
		return &structpb.Struct{} // present and empty: the Fields map is nil
	case 6:
		return &structpb.Struct{Fields: map[string]*structpb.Value{"x": structpb.NewStringValue(strings.Repeat("a", 30) + "!"), "l": structpb.NewListValue(&structpb.ListValue{Values: []*structpb.Value{nil, structpb.NewBoolValue(true)}})}}
	}
	return nil
}

func c19Exec(t *testing.T, sc *gen.Scenario, trace bool) *harness.Outcome {
	return runBubble(t, sc, trace, func(e *Env) {
		s, err := e.NewServer()
		if err != nil {
			e.Out.Infra = "server: " + err.Error()
			return
		}
		raw, _ := base64.StdEncoding.DecodeString(sc.Note)
		hm := &openfgav1.AuthorizationModel{}
		if err := proto.Unmarshal(raw, hm); err != nil {
			e.Out.Infra = "hostile model: " + err.Error()
			return
		}
		bg := context.Background()
		judge := func(what string, el time.Duration, alloc uint64, err error) bool {
			e.Out.Evals++
			e.Run.Log("call", fmt.Sprintf("%s err=%v", what, err != nil))
			if e.Hung {
				return false
			}
			if pe, ok := err.(*PanicError); ok {
				e.Violate("panic_reached_caller", "call="+strings.SplitN(what, "(", 2)[0]+" "+panicSig(pe.Msg), "%s: %v", what, err)
				return false
			}
			if el > 2*time.Second+c20Slack {
				e.Violate("late_return", "call="+strings.SplitN(what, "(", 2)[0], "%s returned after %v of virtual time (deadline 2 s)", what, el)
				return false
			}
			if alloc > 1500<<20 {
				e.Violate("allocation_explosion", "call="+strings.SplitN(what, "(", 2)[0], "%s allocated %d MB", what, alloc>>20)
				return false
			}
			if err != nil {
				if c := status.Code(err); uint32(c) == 4000 || c == 13 {
					simrt.Probe("internal_error_answers")
				} else {
					simrt.Probe("rejected")
				}
			} else {
				simrt.Probe("answered")
			}
			return true
		}
		call := func(what string, fn func(ctx context.Context) error) bool {
			var ms0, ms1 runtime.MemStats
			runtime.ReadMemStats(&ms0)
			t0 := time.Now()
			_, err := timed(e, what, func() (struct{}, error) {
				ctx, cancel := context.WithTimeout(simrt.WithReq(context.Background(), what), 2*time.Second)
				defer cancel()
				return struct{}{}, fn(ctx)
			})
			runtime.ReadMemStats(&ms1)
			return judge(what, time.Since(t0), ms1.TotalAlloc-ms0.TotalAlloc, err)
		}
		modelID := e.ModelID
		// 1. offer the hostile model to the API
		accepted := ""
		if !call("WriteAuthorizationModel(hostile)", func(ctx context.Context) error {
			resp, err := s.WriteAuthorizationModel(ctx, &openfgav1.WriteAuthorizationModelRequest{StoreId: e.StoreID, SchemaVersion: hm.GetSchemaVersion(), TypeDefinitions: hm.GetTypeDefinitions(), Conditions: hm.GetConditions()})
			if err == nil {
				accepted = resp.GetAuthorizationModelId()
			}
			return err
		}) {
			return
		}
		if accepted != "" {
			modelID = accepted
			e.Run.Name(accepted, "MH")
			simrt.Probe("hostile_model_accepted")
		} else if sc.Knob("store_model_raw", 0) == 1 {
			// 2. a model the validator would not let in, found in the database anyway
			hm.Id = e.NewULID(500)
			e.Run.Name(hm.Id, "MRAW")
			if err := e.Mem.WriteAuthorizationModel(bg, e.StoreID, hm); err == nil {
				modelID = hm.Id
				simrt.Probe("hostile_model_stored_raw")
			}
		}
		for _, op := range sc.Ops {
			if op.Kind == "rawtuple" {
				_ = e.WriteTuplesRawTo(e.StoreID, op.Writes)
			}
		}
		tkOf := func(t rm.Tuple) *openfgav1.TupleKey {
			k := &openfgav1.TupleKey{Object: t.Obj, Relation: t.Rel, User: t.User}
			if t.Cond != "" {
				k.Condition = &openfgav1.RelationshipCondition{Name: t.Cond}
			}
			return k
		}
		for i, rq := range sc.Requests {
			var ctxStruct *structpb.Struct
			if rq.Limit > 0 {
				ctxStruct = hostileContext(rq.Limit)
			} else {
				ctxStruct = rm.MustStruct(rq.Ctx)
			}
			var cts []*openfgav1.TupleKey
			for _, c := range rq.CtxTuples {
				cts = append(cts, tkOf(c))
			}
			what := fmt.Sprintf("%s(r%d %q %q %q ctx%d)", rq.Kind, i, trunc(rq.Obj), trunc(rq.Rel), trunc(rq.User), rq.Limit)
			ok := true
			switch rq.Kind {
			case "check":
				ok = call(what, func(ctx context.Context) error {
					_, err := s.Check(ctx, &openfgav1.CheckRequest{StoreId: e.StoreID, AuthorizationModelId: modelID, TupleKey: &openfgav1.CheckRequestTupleKey{Object: rq.Obj, Relation: rq.Rel, User: rq.User}, ContextualTuples: &openfgav1.ContextualTupleKeys{TupleKeys: cts}, Context: ctxStruct})
					return err
				})
			case "batch":
				ok = call(what, func(ctx context.Context) error {
					req := &openfgav1.BatchCheckRequest{StoreId: e.StoreID, AuthorizationModelId: modelID}
					for k := 0; k < 3; k++ {
						req.Checks = append(req.Checks, &openfgav1.BatchCheckItem{TupleKey: &openfgav1.CheckRequestTupleKey{Object: rq.Obj, Relation: rq.Rel, User: rq.User}, ContextualTuples: &openfgav1.ContextualTupleKeys{TupleKeys: cts}, Context: ctxStruct, CorrelationId: []string{"a", "a", trunc(rq.User)}[k]})
					}
					_, err := s.BatchCheck(ctx, req)
					return err
				})
			case "listobjects":
				ok = call(what, func(ctx context.Context) error {
					_, err := s.ListObjects(ctx, &openfgav1.ListObjectsRequest{StoreId: e.StoreID, AuthorizationModelId: modelID, Type: rq.Type, Relation: rq.Rel, User: rq.User, ContextualTuples: &openfgav1.ContextualTupleKeys{TupleKeys: cts}, Context: ctxStruct})
					return err
				})
			case "listusers":
				ok = call(what, func(ctx context.Context) error {
					typ, id := tuple.SplitObject(rq.Obj)
					_, err := s.ListUsers(ctx, &openfgav1.ListUsersRequest{StoreId: e.StoreID, AuthorizationModelId: modelID, Object: &openfgav1.Object{Type: typ, Id: id}, Relation: rq.Rel, UserFilters: []*openfgav1.UserTypeFilter{{Type: rq.Filter}}, ContextualTuples: cts, Context: ctxStruct})
					return err
				})
			case "expand":
				ok = call(what, func(ctx context.Context) error {
					_, err := s.Expand(ctx, &openfgav1.ExpandRequest{StoreId: e.StoreID, AuthorizationModelId: modelID, TupleKey: &openfgav1.ExpandRequestTupleKey{Object: rq.Obj, Relation: rq.Rel}, ContextualTuples: &openfgav1.ContextualTupleKeys{TupleKeys: cts}})
					return err
				})
			case "write":
				ok = call(what, func(ctx context.Context) error {
					k := &openfgav1.TupleKey{Object: rq.Obj, Relation: rq.Rel, User: rq.User}
					if ctxStruct != nil {
						k.Condition = &openfgav1.RelationshipCondition{Name: "zcond", Context: ctxStruct}
					}
					_, err := s.Write(ctx, &openfgav1.WriteRequest{StoreId: e.StoreID, AuthorizationModelId: modelID, Writes: &openfgav1.WriteRequestWrites{TupleKeys: []*openfgav1.TupleKey{k}}})
					return err
				})
			case "read":
				ok = call(what, func(ctx context.Context) error {
					_, err := s.Read(ctx, &openfgav1.ReadRequest{StoreId: e.StoreID, TupleKey: &openfgav1.ReadRequestTupleKey{Object: rq.Obj, Relation: rq.Rel, User: rq.User}, ContinuationToken: trunc(rq.User)})
					return err
				})
			case "changes":
				ok = call(what, func(ctx context.Context) error {
					_, err := s.ReadChanges(ctx, &openfgav1.ReadChangesRequest{StoreId: e.StoreID, Type: rq.Type, ContinuationToken: trunc(rq.Obj)})
					return err
				})
			case "paging":
				tok := rq.Obj
				switch rq.Type {
				case "std":
					tok = base64.StdEncoding.EncodeToString([]byte(rq.Obj))
				case "url":
					tok = base64.URLEncoding.EncodeToString([]byte(rq.Obj))
				case "rawurl":
					tok = base64.RawURLEncoding.EncodeToString([]byte(rq.Obj))
				}
				ps := wrapperspb.Int32(int32(rq.Limit))
				ok = call(fmt.Sprintf("%s(page %d, token %s of %q)", rq.Rel, rq.Limit, rq.Type, rq.Obj), func(ctx context.Context) error {
					var err error
					switch rq.Rel {
					case "ReadAuthorizationModels":
						_, err = s.ReadAuthorizationModels(ctx, &openfgav1.ReadAuthorizationModelsRequest{StoreId: e.StoreID, PageSize: ps, ContinuationToken: tok})
					case "ListStores":
						_, err = s.ListStores(ctx, &openfgav1.ListStoresRequest{PageSize: ps, ContinuationToken: tok})
					case "Read":
						_, err = s.Read(ctx, &openfgav1.ReadRequest{StoreId: e.StoreID, PageSize: ps, ContinuationToken: tok})
					case "ReadChanges":
						_, err = s.ReadChanges(ctx, &openfgav1.ReadChangesRequest{StoreId: e.StoreID, PageSize: ps, ContinuationToken: tok})
					}
					return err
				})
			case "assertions":
				ok = call(what, func(ctx context.Context) error {
					_, err := s.WriteAssertions(ctx, &openfgav1.WriteAssertionsRequest{StoreId: e.StoreID, AuthorizationModelId: modelID, Assertions: []*openfgav1.Assertion{{TupleKey: &openfgav1.AssertionTupleKey{Object: rq.Obj, Relation: rq.Rel, User: rq.User}, ContextualTuples: cts, Context: ctxStruct}}})
					return err
				})
			}
			if !ok {
				return
			}
		}
		e.Out.NonTrivial = e.Out.Evals > 1
	})
}

func trunc(s string) string {
	if len(s) > 24 {
		return s[:24] + "…"
	}
	return s
}

// panicSig keeps the panic message and the first frame of the code under test.
func panicSig(msg string) string {
	first := msg
	if i := strings.Index(first, "\n"); i > 0 {
		first = first[:i]
	}
	if len(first) > 80 {
		first = first[:80]
	}
	return "panic=" + strings.ReplaceAll(first, " ", "_")
}

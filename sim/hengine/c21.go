package hengine

import (
	"fmt"
	"testing"
	"time"

	"github.com/openfga/openfga/internal/verifsim/gen"
	"github.com/openfga/openfga/internal/verifsim/harness"
	"github.com/openfga/openfga/internal/verifsim/simrt"
	"github.com/openfga/openfga/internal/verifsim/simstore"
)

// C21: the streaming ListObjects pipeline on models whose relations form cycle groups. The harness
// binary for this property ("hpipe") is built with the fine-grained instrumentation over the
// pipeline's tracker, workers, media and queues, so every atomic operation, lock, channel operation
// and select inside the cycle-group protocol is a seed-decided scheduling point.
//
// Oracle: (1) every call returns (120 s virtual, all deadlines <= 10 s); (2) what it returns is
// exactly the reference set when no fault fired during the request and the deadline did not cut it
// short — an object derivable only through the cycle that is missing means the group was torn down
// early; returned objects are always permitted; (3) once all calls have returned and the server is
// closed no pipeline goroutine is left.
func c21Gen(runSeed uint64, tier string) *gen.Scenario {
	g := gen.New(runSeed ^ 0xc21)
	rec := []float64{0.5, 0.8, 1}[g.Intn(3)]
	sc := genEngineScenarioWith(runSeed, tier, 0, func(o *gen.ModelOpts) { o.Recursive = rec })
	sc.Requests = g.ListObjectsRequests(sc.Model, 6, [3]float64{0.8, 0.1, 0.1})
	stored := map[string]bool{}
	for _, t := range sc.Tuples {
		stored[t.Key()] = true
	}
	for i := range sc.Requests {
		if g.Chance(0.15) {
			for _, t := range g.Tuples(sc.Model, 1+g.Intn(2), 0) {
				if sc.Model.ValidForWrite(t) && !sc.Model.AmbiguousCondShape(t) && !stored[t.Key()] {
					sc.Requests[i].CtxTuples = append(sc.Requests[i].CtxTuples, t)
				}
			}
		}
		if g.Chance(0.2) {
			sc.Requests[i].Conc = 2
		}
	}
	sc.Knobs["lo_engine"] = int64(2 + g.Intn(2))
	sc.Knobs["lo_limit"] = []int64{0, 0, 0, 1, 2}[g.Intn(5)]
	sc.Knobs["streamed"] = int64(g.Intn(2))
	sc.Knobs["chunk"] = []int64{0, 1, 2, 3}[g.Intn(4)]
	sc.Knobs["bufcap"] = []int64{0, 1, 2, 4}[g.Intn(4)]
	sc.Knobs["numprocs"] = []int64{0, 1, 2, 3}[g.Intn(4)]
	switch g.Intn(10) {
	case 0, 1:
		sc.Knobs["faults"] = int64(simstore.FaultOpenErr | simstore.FaultIterErr)
	case 2, 3:
		sc.Knobs["faults"] = int64(simstore.FaultPanic | simstore.FaultIterPanic)
		sc.Knobs["fault_rate_pm"] = 80
	case 4:
		sc.Knobs["faults"] = int64(simstore.FaultOpenErr | simstore.FaultIterErr | simstore.FaultPanic | simstore.FaultIterPanic | simstore.FaultStall)
		sc.Knobs["fault_rate_pm"] = 60
	}
	// the classic ListObjects path (which the pipeline flag falls back to for some requests) lets a
	// panic below ReverseExpand kill the process (finding F30), so panics are aimed at pipeline
	// goroutines only
	sc.Knobs["panic_in_pipeline_only"] = 1
	if g.Chance(0.15) {
		sc.Knobs["lo_deadline_us"] = int64(20 + g.Intn(400))
		sc.Knobs["max_latency_ns"] = 60000
	}
	// the fine-grained yields are short compared with storage latency, so that protocol steps of
	// different workers interleave between two storage calls
	sc.Knobs["max_yield_ns"] = []int64{200, 2000, 20000}[g.Intn(3)]
	return sc
}

func firedTotal(m map[string]int) int {
	n := 0
	for _, v := range m {
		n += v
	}
	return n
}

func c21Exec(t *testing.T, sc *gen.Scenario, trace bool) *harness.Outcome {
	return runBubble(t, sc, trace, func(e *Env) {
		s, err := e.NewServer(loServerOpts(sc)...)
		if err != nil {
			e.Out.Infra = "server: " + err.Error()
			return
		}
		streamed := sc.Knob("streamed", 0) == 1
		limit := int(sc.Knob("lo_limit", 0))
		if streamed {
			limit = 0
		}
		deadline := 3 * time.Second
		if v := sc.Knob("lo_deadline_us", 0); v > 0 {
			deadline = time.Duration(v) * time.Microsecond
		}
		for i, rq := range sc.Requests {
			n := rq.Conc
			if n < 1 {
				n = 1
			}
			type ans struct {
				got       []string
				err       error
				el        time.Duration
				faultsHit bool
			}
			res := make([]ans, n)
			done := make(chan int, n)
			before := firedTotal(e.DS.Fired())
			for k := 0; k < n; k++ {
				k := k
				e.Run.Go(fmt.Sprintf("r%d.%d", i, k), func() {
					ctx, cancel := reqCtx(i, fmt.Sprintf(".%d", k), 10*time.Second)
					t0 := time.Now()
					got, err := e.SrvListObjects(ctx, s, rq, streamed)
					cancel()
					res[k] = ans{got: got, err: err, el: time.Since(t0)}
					done <- k
				})
			}
			for k := 0; k < n; k++ {
				<-done
			}
			if e.Hung || e.Out.Violation != nil {
				return
			}
			faulty := firedTotal(e.DS.Fired()) != before
			if faulty {
				simrt.Probe("request_with_fault")
			} else if sc.Knob("faults", 0) != 0 {
				simrt.Probe("request_without_fault_in_faulty_run")
			}
			for k := 0; k < n; k++ {
				r := res[k]
				e.Run.Log("resp", fmt.Sprintf("r%d.%d n=%d err=%v", i, k, len(r.got), r.err != nil))
				truncated := r.el >= deadline
				if truncated {
					simrt.Probe("deadline_truncated")
				}
				if _, isPanic := r.err.(*PanicError); isPanic && !faulty {
					e.Violate("panic_without_fault", "", "listobjects(%s#%s@%s): %v", rq.Type, rq.Rel, rq.User, r.err)
					return
				}
				if streamed && r.err != nil && len(r.got) > 0 {
					e.SigExtra = " streamed_error_after_objects"
					e.JudgeListObjects("srv", rq, stateFor(sc, rq), r.got, nil, true, limit, true)
					e.SigExtra = ""
				} else {
					e.JudgeListObjects("srv", rq, stateFor(sc, rq), r.got, r.err, faulty, limit, truncated)
				}
				if e.Out.Violation != nil {
					return
				}
			}
		}
		e.Out.NonTrivial = len(sc.Tuples) > 0 && e.Out.Evals > 0
	})
}

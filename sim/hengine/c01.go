package hengine

import (
	"context"
	"fmt"
	"os"
	"testing"
	"time"

	openfgav1 "github.com/openfga/api/proto/openfga/v1"

	"github.com/openfga/openfga/internal/graph"
	"github.com/openfga/openfga/internal/verifsim/gen"
	"github.com/openfga/openfga/internal/verifsim/harness"
	rm "github.com/openfga/openfga/internal/verifsim/refmodel"
	"github.com/openfga/openfga/internal/verifsim/simrt"
	"github.com/openfga/openfga/internal/verifsim/simstore"
	"github.com/openfga/openfga/pkg/logger"
	"github.com/openfga/openfga/pkg/server"
	"github.com/openfga/openfga/pkg/server/commands"
	"github.com/openfga/openfga/pkg/tuple"
)

// genEngineScenario is the C01 input space (shared by C02–C07, C30, C32).
func genEngineScenario(runSeed uint64, tier string, nReq int) *gen.Scenario {
	return genEngineScenarioWith(runSeed, tier, nReq, nil)
}

func genEngineScenarioWith(runSeed uint64, tier string, nReq int, tweak func(o *gen.ModelOpts)) *gen.Scenario {
	g := gen.New(runSeed)
	sc := &gen.Scenario{Version: 1, Harness: "hengine", Knobs: map[string]int64{}}
	opts := gen.ModelOpts{Conditions: g.Chance(0.45), Exclusion: g.Chance(0.6), MaxTypes: 1 + g.Intn(3), NoWildcard: g.Chance(0.3), SecondUserType: true}
	if tweak != nil {
		tweak(&opts)
	}
	for try := 0; try < 50; try++ {
		m := g.Model(opts)
		if gen.Stratified(m) {
			sc.Model = m
			break
		}
	}
	if sc.Model == nil {
		sc.Model = g.Model(gen.ModelOpts{MaxTypes: 1})
	}
	nT := 4 + g.Intn(30)
	sc.Tuples = unambiguous(sc.Model, g.Tuples(sc.Model, nT, []float64{0, 0.1, 0.25}[g.Intn(3)]))
	stored := map[string]bool{}
	for _, t := range sc.Tuples {
		stored[t.Key()] = true
	}
	// a third of the scenarios get explicit userset cycles (with a member and a dead end hanging off)
	var cycleAtoms []string
	if g.Chance(0.35) {
		ct, atoms := g.CycleTuples(sc.Model)
		for _, t := range ct {
			if !stored[t.Key()] && !sc.Model.AmbiguousCondShape(t) {
				stored[t.Key()] = true
				sc.Tuples = append(sc.Tuples, t)
			}
		}
		cycleAtoms = atoms
	}
	sc.Requests = g.CheckRequests(sc.Model, nReq, [3]float64{0.7, 0.1, 0.2})
	// requests aimed at the cycle, in cycle order, for one subject
	if len(cycleAtoms) > 0 && nReq > 0 {
		u := "user:" + []string{"a", "b", "c"}[g.Intn(3)]
		for i, a := range cycleAtoms {
			if i >= len(sc.Requests) {
				break
			}
			o, r, _ := cut(a, "#")
			sc.Requests[i] = gen.Request{Kind: "check", Obj: o, Rel: r, User: u}
		}
	}
	// contextual tuples on some requests
	for i := range sc.Requests {
		if g.Chance(0.2) {
			ct := g.Tuples(sc.Model, 1+g.Intn(3), 0)
			var ok []rm.Tuple
			for _, t := range ct {
				if sc.Model.ValidForWrite(t) && !sc.Model.AmbiguousCondShape(t) && !stored[t.Key()] {
					ok = append(ok, t)
				}
			}
			sc.Requests[i].CtxTuples = ok
		}
	}
	sc.Knobs["delay_mode"] = int64(g.Intn(simrt.NumModes))
	sc.Knobs["plan_policy"] = int64(g.Intn(4))
	sc.Knobs["breadth"] = []int64{1, 2, 25}[g.Intn(3)]
	sc.Knobs["max_reads"] = []int64{1, 2, 0}[g.Intn(3)]
	sc.Knobs["level"] = int64(g.Intn(2)) // 0 = command with SimPlanner, 1 = Server.Check
	sc.Knobs["optimizations"] = int64(g.Intn(2))
	return sc
}

func cut(s, sep string) (string, string, bool) {
	for i := 0; i+len(sep) <= len(s); i++ {
		if s[i:i+len(sep)] == sep {
			return s[:i], s[i+len(sep):], true
		}
	}
	return s, "", false
}

// unambiguous drops tuples whose condition is only allowed for another shape of the same user type
// (the validator and the documentation disagree there; that is C18's business, see DESIGN).
func unambiguous(m *rm.Model, ts []rm.Tuple) []rm.Tuple {
	var out []rm.Tuple
	for _, t := range ts {
		if !m.AmbiguousCondShape(t) {
			out = append(out, t)
		}
	}
	return out
}

func stateFor(sc *gen.Scenario, rq gen.Request) *rm.State {
	if len(rq.CtxTuples) == 0 {
		return rm.NewState(sc.Model, sc.Tuples)
	}
	all := append(append([]rm.Tuple(nil), sc.Tuples...), rq.CtxTuples...)
	return rm.NewState(sc.Model, all)
}

// checker abstracts "issue one Check" at command or server level.
type checker func(ctx context.Context, rq gen.Request) (bool, error)

func (e *Env) commandChecker() (checker, error) {
	sc := e.Sc
	pl := simstore.NewPlanner(e.Run, int(sc.Knob("plan_policy", 0)))
	lopts := []graph.LocalCheckerOption{
		graph.WithPlanner(pl),
		graph.WithResolveNodeBreadthLimit(uint32(sc.Knob("breadth", 25))),
		graph.WithOptimizations(sc.Knob("optimizations", 0) == 1),
		graph.WithMaxResolutionDepth(uint32(sc.Knob("depth", 25))),
	}
	resolver, closer, err := graph.NewOrderedCheckResolvers(graph.WithLocalCheckerOpts(lopts...)).Build()
	if err != nil {
		return nil, err
	}
	e.OnClose(closer)
	var copts []commands.CheckQueryOption
	if mr := sc.Knob("max_reads", 0); mr > 0 {
		copts = append(copts, commands.WithCheckCommandMaxConcurrentReads(uint32(mr)))
	}
	return func(ctx context.Context, rq gen.Request) (bool, error) {
		cmd := commands.NewCheckCommand(e.DS, resolver, e.TS, copts...)
		cons := openfgav1.ConsistencyPreference_UNSPECIFIED
		if rq.HC {
			cons = openfgav1.ConsistencyPreference_HIGHER_CONSISTENCY
		}
		res, err := cmd.Execute(ctx, &commands.CheckCommandParams{
			StoreID:          e.StoreID,
			TupleKey:         tuple.NewCheckRequestTupleKey(rq.Obj, rq.Rel, rq.User),
			ContextualTuples: CtxTupleKeys(rq.CtxTuples),
			Context:          rm.MustStruct(rq.Ctx),
			Consistency:      cons,
		})
		if err != nil {
			return false, err
		}
		return res.Allowed, nil
	}, nil
}

// ServerOpts builds the option list common to engine-level server runs.
func (e *Env) ServerOpts() []server.OpenFGAServiceV1Option {
	sc := e.Sc
	opts := []server.OpenFGAServiceV1Option{
		server.WithDatastore(e.DS),
		server.WithContextPropagationToDatastore(true),
		server.WithResolveNodeBreadthLimit(uint32(sc.Knob("breadth", 25))),
	}
	if mr := sc.Knob("max_reads", 0); mr > 0 {
		opts = append(opts, server.WithMaxConcurrentReadsForCheck(uint32(mr)), server.WithMaxConcurrentReadsForListObjects(uint32(mr)), server.WithMaxConcurrentReadsForListUsers(uint32(mr)))
	}
	return opts
}

func (e *Env) NewServer(extra ...server.OpenFGAServiceV1Option) (*server.Server, error) {
	// vary the real planner's RNG seed (taken from the virtual clock) across runs
	time.Sleep(time.Duration(e.Run.H("clock-offset")%1000000) + 1)
	if os.Getenv("VSIM_LOG") != "" {
		extra = append(extra, server.WithLogger(logger.MustNewLogger("text", "debug", "ISO8601")))
	}
	s, err := server.NewServerWithOpts(append(e.ServerOpts(), extra...)...)
	if err != nil {
		return nil, err
	}
	e.OnClose(s.Close)
	return s, nil
}

func (e *Env) serverChecker(s *server.Server) checker {
	return func(ctx context.Context, rq gen.Request) (bool, error) {
		cons := openfgav1.ConsistencyPreference_UNSPECIFIED
		if rq.HC {
			cons = openfgav1.ConsistencyPreference_HIGHER_CONSISTENCY
		}
		resp, err := s.Check(ctx, &openfgav1.CheckRequest{
			StoreId:              e.StoreID,
			AuthorizationModelId: e.ModelID,
			TupleKey:             tuple.NewCheckRequestTupleKey(rq.Obj, rq.Rel, rq.User),
			ContextualTuples:     CtxTupleKeys(rq.CtxTuples),
			Context:              rm.MustStruct(rq.Ctx),
			Consistency:          cons,
		})
		if err != nil {
			return false, err
		}
		return resp.GetAllowed(), nil
	}
}

func c01Gen(runSeed uint64, tier string) *gen.Scenario {
	sc := genEngineScenario(runSeed, tier, 12)
	g := gen.New(runSeed ^ 0xc01)
	if g.Chance(0.35) {
		sc.Knobs["faults"] = int64(simstore.FaultOpenErr | simstore.FaultIterErr)
	}
	if x := g.Intn(100); x < 10 {
		// directed shape: same relation names with different depths on several layered types
		sc.Model, sc.Tuples, sc.Requests = g.LayeredSameName()
	} else if x < 18 {
		// directed shape: deep self-recursive relations over many objects
		sc.Model, sc.Tuples, sc.Requests = g.DeepRecursive()
	}
	return sc
}

func c01Exec(t *testing.T, sc *gen.Scenario, trace bool) *harness.Outcome {
	return runBubble(t, sc, trace, func(e *Env) {
		out := e.Out
		var chk checker
		if sc.Knob("level", 0) == 1 {
			s, err := e.NewServer()
			if err != nil {
				out.Infra = "server: " + err.Error()
				return
			}
			chk = e.serverChecker(s)
		} else {
			c, err := e.commandChecker()
			if err != nil {
				out.Infra = "resolver: " + err.Error()
				return
			}
			chk = c
		}
		faulty := sc.Knob("faults", 0) != 0
		for i, rq := range sc.Requests {
			ctx, cancel := context.WithTimeout(simrt.WithReq(context.Background(), fmt.Sprintf("r%d", i)), 3*time.Second)
			firedBefore := e.FiredTotal()
			allowed, err := timed(e, fmt.Sprintf("Check(%s#%s@%s)", rq.Obj, rq.Rel, rq.User), func() (bool, error) { return chk(ctx, rq) })
			cancel()
			e.Run.Log("resp", fmt.Sprintf("r%d allowed=%v err=%v", i, allowed, err != nil))
			if faulty && err == nil && !e.Hung {
				e.SigExtra = e.FaultTag(firedBefore, allowed, func() (bool, error) {
					ctx, cancel := context.WithTimeout(simrt.WithReq(context.Background(), fmt.Sprintf("r%dnofault", i)), 3*time.Second)
					defer cancel()
					return chk(ctx, rq)
				})
			}
			st := stateFor(sc, rq)
			if allowed && err == nil && !e.Hung && TwoUsersetsOfOneType(sc.Model, rm.ObjType(rq.Obj), rq.Rel) && crossUsersetTuple(sc.Model, st) && !st.CheckSuper(rq.Obj, rq.Rel, rq.User, rq.Ctx).CanBeTrue {
				// a wrong grant in the shape of recorded finding F39 (the recursive userset strategy follows
				// T#r2 tuples as if they named r): is it that? The same request against a copy of the store
				// without those tuples: if the reference still denies and the engine still grants, it is not
				less := withoutCrossUsersetTuples(sc.Model, sc.Tuples)
				rq2 := rq
				rq2.CtxTuples = withoutCrossUsersetTuples(sc.Model, rq.CtxTuples)
				ref2 := rm.NewState(sc.Model, append(append([]rm.Tuple(nil), less...), rq2.CtxTuples...))
				if !ref2.CheckSuper(rq.Obj, rq.Rel, rq.User, rq.Ctx).CanBeTrue {
					cid := e.NewULID(900 + i)
					e.Run.Name(cid, fmt.Sprintf("X%d", i))
					if e.cloneStore(cid, less) == nil {
						orig := e.StoreID
						e.StoreID = cid
						ctx2, cancel2 := context.WithTimeout(simrt.WithReq(context.Background(), fmt.Sprintf("r%dnocross", i)), 3*time.Second)
						again, err2 := chk(ctx2, rq2)
						cancel2()
						e.StoreID = orig
						e.GrantNotFromCrossUsersets = err2 == nil && again
					}
				}
			}
			e.JudgeCheck("v1", rq, st, allowed, err, faulty)
			e.GrantNotFromCrossUsersets = false
			e.SigExtra = ""
			if out.Violation != nil {
				return
			}
		}
		out.NonTrivial = len(sc.Tuples) > 0 && out.Evals > 0
	})
}

// Props lists the checks hosted by this binary.
func Props() []*harness.Prop {
	return []*harness.Prop{
		{ID: "C01", Gen: c01Gen, Exec: c01Exec},
		{ID: "C02", Gen: c02Gen, Exec: c02Exec},
		{ID: "C03", Gen: c03Gen, Exec: c03Exec},
		{ID: "C04", Gen: c04Gen, Exec: c04Exec},
		{ID: "C05", Gen: c05Gen, Exec: c05Exec},
		{ID: "C06", Gen: c06Gen, Exec: c06Exec},
		{ID: "C07", Gen: c07Gen, Exec: c07Exec},
		{ID: "C08", Gen: c08Gen, Exec: c08Exec},
		{ID: "C09", Gen: c09Gen, Exec: c09Exec},
		{ID: "C11", Gen: c11Gen, Exec: c11Exec},
		{ID: "C16", Gen: c16Gen, Exec: c16Exec},
		{ID: "C17", Gen: c17Gen, Exec: c17Exec},
		{ID: "C18", Gen: c18Gen, Exec: c18Exec},
		{ID: "C19", Gen: c19Gen, Exec: c19Exec},
		{ID: "C20", Gen: c20Gen, Exec: c20Exec},
		{ID: "C21", Gen: c21Gen, Exec: c21Exec},
		{ID: "C10", Gen: c10Gen, Exec: c10Exec},
		{ID: "C26", Gen: c26Gen, Exec: c26Exec},
		{ID: "C30", Gen: c30Gen, Exec: c30Exec},
		{ID: "C32", Gen: c32Gen, Exec: c32Exec},
	}
}

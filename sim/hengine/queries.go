package hengine

import (
	"context"
	"errors"
	"fmt"
	"runtime"
	"sort"
	"strings"
	"sync"
	"time"

	openfgav1 "github.com/openfga/api/proto/openfga/v1"
	"google.golang.org/grpc"
	"google.golang.org/grpc/metadata"

	"github.com/openfga/openfga/internal/verifsim/gen"
	rm "github.com/openfga/openfga/internal/verifsim/refmodel"
	"github.com/openfga/openfga/internal/verifsim/simrt"
	"github.com/openfga/openfga/pkg/server"
	"github.com/openfga/openfga/pkg/tuple"
)

func (e *Env) storeOf(rq gen.Request) string {
	if rq.Store != "" {
		return rq.Store
	}
	return e.StoreID
}

func (e *Env) modelOf(rq gen.Request) string {
	switch rq.ModelID {
	case "":
		return e.ModelID
	case "-":
		return ""
	}
	return rq.ModelID
}

func consistency(hc bool) openfgav1.ConsistencyPreference {
	if hc {
		return openfgav1.ConsistencyPreference_HIGHER_CONSISTENCY
	}
	return openfgav1.ConsistencyPreference_UNSPECIFIED
}

// Experimentals maps the lo_engine / v2 knobs to experimental flags.
func Experimentals(sc *gen.Scenario) []string {
	var ex []string
	switch sc.Knob("lo_engine", 0) {
	case 1:
		ex = append(ex, "enable-list-objects-optimizations")
	case 2:
		ex = append(ex, "pipeline_list_objects")
	case 3:
		ex = append(ex, "pipeline_list_objects", "enable-list-objects-optimizations")
	}
	if sc.Knob("optimizations", 0) == 1 {
		ex = append(ex, "enable-check-optimizations")
	}
	if sc.Knob("v2", 0) == 1 {
		ex = append(ex, "weighted_graph_check")
	}
	if sc.Knob("authzen", 0) == 1 {
		ex = append(ex, "authzen")
	}
	if sc.Knob("ds_throttle", 0) == 1 {
		ex = append(ex, "datastore_throttling")
	}
	return ex
}

// ErrHang is returned by the Srv* helpers when a call did not return within 120 s of virtual time
// although every deadline involved is far shorter (liveness violation; recorded by timed()).
var ErrHang = errors.New("sim: call did not return (hang)")

// PanicError is what a panic that reached the calling goroutine is turned into.
type PanicError struct{ Msg string }

func (p *PanicError) Error() string { return "sim: panic reached the caller: " + p.Msg }

// timed runs fn on its own goroutine and gives up after 120 s of virtual time.
func timed[T any](e *Env, what string, fn func() (T, error)) (T, error) {
	type res struct {
		v   T
		err error
	}
	ch := make(chan res, 1)
	id := e.Run.Identity()
	e.Run.Go(id+"/call", func() {
		defer func() {
			// a panic on the calling goroutine would be turned into an Internal error by the gRPC
			// recovery interceptor in production; the harness does the same
			if p := recover(); p != nil {
				var zero T
				simrt.Probe("panic_reached_caller")
				ch <- res{zero, &PanicError{fmt.Sprint(p)}}
			}
		}()
		v, err := fn()
		ch <- res{v, err}
	})
	select {
	case r := <-ch:
		return r.v, r.err
	case <-time.After(120 * time.Second):
		var zero T
		e.Hung = true
		e.Violate("hang", "call="+strings.SplitN(what, "(", 2)[0]+" "+hangSig()+e.hangContext(), "%s did not return within 120s of virtual time (all deadlines are <= 10s); blocked goroutines:\n%s", what, blockedStacks())
		return zero, ErrHang
	}
}

// hangContext names what could have cut the hung call short (the known teardown deadlock F12 needs an
// early Close: result limit reached, deadline, cancellation or an error).
func (e *Env) hangContext() string {
	sc := e.Sc
	var tags []string
	if sc.Knob("lo_limit", 0) > 0 && sc.Knob("streamed", 0) == 0 {
		tags = append(tags, "result_limit")
	}
	if sc.Knob("lo_deadline_us", 0) > 0 {
		tags = append(tags, "short_deadline")
	}
	if f := e.DS.Fired(); len(f) > 0 {
		var ks []string
		for k := range f {
			ks = append(ks, k)
		}
		sort.Strings(ks)
		tags = append(tags, "fault_fired:"+strings.Join(ks, "/"))
	}
	model := ""
	if RepeatsOperand(sc.Model) {
		// F29: the pipeline never terminates on `x or (y from z) or (y from z)` inside a recursive relation
		model = " model_repeats_an_operand_in_a_union"
	}
	if len(tags) == 0 {
		return " trigger=none" + model
	}
	return " trigger=" + strings.Join(tags, "+") + model
}

// TwoUsersetsOfOneType reports whether some relation reachable from typ#rel lists two userset
// restrictions of the same type through different relations ([group#admin, group#member]).
func TwoUsersetsOfOneType(m *rm.Model, typ, rel string) bool {
	type node struct{ t, r string }
	seen := map[node]bool{}
	stack := []node{{typ, rel}}
	for len(stack) > 0 {
		n := stack[len(stack)-1]
		stack = stack[:len(stack)-1]
		if seen[n] {
			continue
		}
		seen[n] = true
		r := m.Rel(n.t, n.r)
		if r == nil {
			continue
		}
		byType := map[string]map[string]bool{}
		for _, res := range r.Restrictions {
			if res.Relation != "" {
				if byType[res.Type] == nil {
					byType[res.Type] = map[string]bool{}
				}
				byType[res.Type][res.Relation] = true
				stack = append(stack, node{res.Type, res.Relation})
			}
		}
		for _, rels := range byType {
			if len(rels) > 1 {
				return true
			}
		}
		var walk func(rw *rm.Rewrite)
		walk = func(rw *rm.Rewrite) {
			switch rw.Kind {
			case rm.Computed:
				stack = append(stack, node{n.t, rw.Relation})
			case rm.TTU:
				if ts := m.Rel(n.t, rw.Tupleset); ts != nil {
					for _, res := range ts.Restrictions {
						stack = append(stack, node{res.Type, rw.Relation})
					}
				}
			}
			for _, c := range rw.Children {
				walk(c)
			}
		}
		walk(r.Rewrite)
	}
	return false
}

// SharedSetOperator reports whether, in the part of the model reachable from typ#rel, a relation
// whose rewrite is an intersection or an exclusion is referred to from two different places
// (computed usersets, tuple-to-usersets or userset restrictions): two edges into one operator node.
func SharedSetOperator(m *rm.Model, typ, rel string) bool {
	type node struct{ t, r string }
	seen := map[node]bool{}
	refs := map[node]map[string]bool{}
	stack := []node{{typ, rel}}
	ref := func(to node, from string) {
		if refs[to] == nil {
			refs[to] = map[string]bool{}
		}
		refs[to][from] = true
		stack = append(stack, to)
	}
	for len(stack) > 0 {
		n := stack[len(stack)-1]
		stack = stack[:len(stack)-1]
		if seen[n] {
			continue
		}
		seen[n] = true
		r := m.Rel(n.t, n.r)
		if r == nil {
			continue
		}
		from := n.t + "#" + n.r
		for _, res := range r.Restrictions {
			if res.Relation != "" {
				ref(node{res.Type, res.Relation}, from+"/userset")
			}
		}
		var walk func(rw *rm.Rewrite, path string)
		walk = func(rw *rm.Rewrite, path string) {
			switch rw.Kind {
			case rm.Computed:
				ref(node{n.t, rw.Relation}, from+path+"/computed")
			case rm.TTU:
				if ts := m.Rel(n.t, rw.Tupleset); ts != nil {
					for _, res := range ts.Restrictions {
						ref(node{res.Type, rw.Relation}, from+path+"/ttu:"+rw.Tupleset)
					}
				}
			}
			for i, c := range rw.Children {
				walk(c, fmt.Sprintf("%s.%d", path, i))
			}
		}
		walk(r.Rewrite, "")
	}
	for n, from := range refs {
		if len(from) < 2 {
			continue
		}
		if r := m.Rel(n.t, n.r); r != nil && (r.Rewrite.Kind == rm.Intersection || r.Rewrite.Kind == rm.Difference) {
			return true
		}
	}
	return false
}

// SharedNodeUnderSetOperator: the target reaches an intersection or an exclusion, and some relation in
// the reachable part of the model is referred to from two different places (whatever its own rewrite).
func SharedNodeUnderSetOperator(m *rm.Model, typ, rel string) bool {
	if !ReachesKind(m, typ, rel, rm.Difference) && !ReachesKind(m, typ, rel, rm.Intersection) {
		return false
	}
	type node struct{ t, r string }
	seen := map[node]bool{}
	refs := map[node]map[string]bool{}
	stack := []node{{typ, rel}}
	ref := func(to node, from string) {
		if refs[to] == nil {
			refs[to] = map[string]bool{}
		}
		refs[to][from] = true
		stack = append(stack, to)
	}
	for len(stack) > 0 {
		n := stack[len(stack)-1]
		stack = stack[:len(stack)-1]
		if seen[n] {
			continue
		}
		seen[n] = true
		r := m.Rel(n.t, n.r)
		if r == nil {
			continue
		}
		from := n.t + "#" + n.r
		for _, res := range r.Restrictions {
			if res.Relation != "" {
				ref(node{res.Type, res.Relation}, from+"/userset")
			}
		}
		var walk func(rw *rm.Rewrite, path string)
		walk = func(rw *rm.Rewrite, path string) {
			switch rw.Kind {
			case rm.Computed:
				ref(node{n.t, rw.Relation}, from+path+"/computed")
			case rm.TTU:
				if ts := m.Rel(n.t, rw.Tupleset); ts != nil {
					for _, res := range ts.Restrictions {
						ref(node{res.Type, rw.Relation}, from+path+"/ttu:"+rw.Tupleset)
					}
				}
			}
			for i, c := range rw.Children {
				walk(c, fmt.Sprintf("%s.%d", path, i))
			}
		}
		walk(r.Rewrite, "")
	}
	for _, from := range refs {
		if len(from) >= 2 {
			return true
		}
	}
	return false
}

// RepeatsLeaf reports whether some relation uses the same leaf operand (computed userset,
// tuple-to-userset or direct assignment) twice anywhere in its rewrite.
func RepeatsLeaf(m *rm.Model) bool {
	for _, t := range m.Types {
		for _, r := range t.Relations {
			seen := map[string]bool{}
			dup := false
			var walk func(rw *rm.Rewrite)
			walk = func(rw *rm.Rewrite) {
				if rw == nil {
					return
				}
				if len(rw.Children) == 0 {
					k := fmt.Sprintf("%d:%s:%s", rw.Kind, rw.Relation, rw.Tupleset)
					if seen[k] {
						dup = true
					}
					seen[k] = true
				}
				for _, c := range rw.Children {
					walk(c)
				}
			}
			walk(r.Rewrite)
			if dup {
				return true
			}
		}
	}
	return false
}

// RepeatsOperand reports whether some relation's rewrite contains a union or intersection that,
// once nested operators of the same kind are flattened, lists the same operand twice.
func RepeatsOperand(m *rm.Model) bool {
	var key func(rw *rm.Rewrite) string
	key = func(rw *rm.Rewrite) string {
		s := fmt.Sprintf("%d:%s:%s(", rw.Kind, rw.Relation, rw.Tupleset)
		for _, c := range rw.Children {
			s += key(c) + ","
		}
		return s + ")"
	}
	var flat func(kind rm.RewriteKind, rw *rm.Rewrite, out *[]*rm.Rewrite)
	flat = func(kind rm.RewriteKind, rw *rm.Rewrite, out *[]*rm.Rewrite) {
		for _, c := range rw.Children {
			if c.Kind == kind {
				flat(kind, c, out)
			} else {
				*out = append(*out, c)
			}
		}
	}
	var walk func(rw *rm.Rewrite) bool
	walk = func(rw *rm.Rewrite) bool {
		if rw == nil {
			return false
		}
		if rw.Kind == rm.Union || rw.Kind == rm.Intersection {
			var ops []*rm.Rewrite
			flat(rw.Kind, rw, &ops)
			seen := map[string]bool{}
			for _, o := range ops {
				k := key(o)
				if seen[k] {
					return true
				}
				seen[k] = true
			}
		}
		for _, c := range rw.Children {
			if walk(c) {
				return true
			}
		}
		return false
	}
	for _, t := range m.Types {
		for _, r := range t.Relations {
			if walk(r.Rewrite) {
				return true
			}
		}
	}
	return false
}

// hangSig summarises where the stuck goroutines are parked (function names only).
func hangSig() string {
	st := blockedStacks()
	var tags []string
	for _, t := range []string{"pipeline.(*Pipeline).Close", "track.(*StatusPool).Wait", "worker.DrainSender", "mpmc.(*Queue", "sharediterator", "graph.", "reverseexpand", "listusers"} {
		if strings.Contains(st, t) {
			tags = append(tags, t)
		}
	}
	return "blocked_in=" + strings.Join(tags, ",")
}

func blockedStacks() string {
	buf := make([]byte, 1<<20)
	n := runtime.Stack(buf, true)
	var out []string
	for _, g := range strings.Split(string(buf[:n]), "\n\n") {
		if !strings.Contains(g, "github.com/openfga/openfga/") || strings.Contains(g, "verifsim/harness.init") {
			continue
		}
		lines := strings.Split(g, "\n")
		var keep []string
		for i, l := range lines {
			if i == 0 {
				continue
			}
			if strings.HasPrefix(l, "github.com/openfga/openfga/") && !strings.Contains(l, "verifsim") {
				if j := strings.Index(l, "("); j > 0 {
					keep = append(keep, strings.TrimPrefix(l[:strings.LastIndex(l, "(")], "github.com/openfga/openfga/"))
				}
			}
			if len(keep) >= 4 {
				break
			}
		}
		if len(keep) > 0 {
			out = append(out, "  "+strings.Join(keep, " <- "))
		}
	}
	sort.Strings(out)
	if len(out) > 14 {
		out = out[:14]
	}
	return strings.Join(out, "\n")
}

// SrvCheck issues a Check through the server.
func (e *Env) SrvCheck(ctx context.Context, s *server.Server, rq gen.Request) (bool, error) {
	return timed(e, fmt.Sprintf("Check(%s#%s@%s)", rq.Obj, rq.Rel, rq.User), func() (bool, error) { return e.srvCheck(ctx, s, rq) })
}

func (e *Env) srvCheck(ctx context.Context, s *server.Server, rq gen.Request) (bool, error) {
	resp, err := s.Check(ctx, &openfgav1.CheckRequest{
		StoreId:              e.storeOf(rq),
		AuthorizationModelId: e.modelOf(rq),
		TupleKey:             tuple.NewCheckRequestTupleKey(rq.Obj, rq.Rel, rq.User),
		ContextualTuples:     CtxTupleKeys(rq.CtxTuples),
		Context:              rm.MustStruct(rq.Ctx),
		Consistency:          consistency(rq.HC),
	})
	if err != nil {
		return false, err
	}
	return resp.GetAllowed(), nil
}

// SrvListObjects issues ListObjects (or the streamed variant) and returns the object ids.
func (e *Env) SrvListObjects(ctx context.Context, s *server.Server, rq gen.Request, streamed bool) ([]string, error) {
	return timed(e, fmt.Sprintf("ListObjects(%s#%s@%s streamed=%v)", rq.Type, rq.Rel, rq.User, streamed), func() ([]string, error) { return e.srvListObjects(ctx, s, rq, streamed) })
}

func (e *Env) srvListObjects(ctx context.Context, s *server.Server, rq gen.Request, streamed bool) ([]string, error) {
	if streamed {
		st := &collectStream{ctx: ctx}
		err := s.StreamedListObjects(&openfgav1.StreamedListObjectsRequest{
			StoreId:              e.storeOf(rq),
			AuthorizationModelId: e.modelOf(rq),
			Type:                 rq.Type,
			Relation:             rq.Rel,
			User:                 rq.User,
			ContextualTuples:     CtxTupleKeys(rq.CtxTuples),
			Context:              rm.MustStruct(rq.Ctx),
			Consistency:          consistency(rq.HC),
		}, st)
		return st.objs, err
	}
	resp, err := s.ListObjects(ctx, &openfgav1.ListObjectsRequest{
		StoreId:              e.storeOf(rq),
		AuthorizationModelId: e.modelOf(rq),
		Type:                 rq.Type,
		Relation:             rq.Rel,
		User:                 rq.User,
		ContextualTuples:     CtxTupleKeys(rq.CtxTuples),
		Context:              rm.MustStruct(rq.Ctx),
		Consistency:          consistency(rq.HC),
	})
	if err != nil {
		return nil, err
	}
	return resp.GetObjects(), nil
}

type collectStream struct {
	grpc.ServerStream
	ctx  context.Context
	mu   sync.Mutex
	objs []string
}

func (c *collectStream) Context() context.Context       { return c.ctx }
func (c *collectStream) SetHeader(metadata.MD) error    { return nil }
func (c *collectStream) SendHeader(metadata.MD) error   { return nil }
func (c *collectStream) SetTrailer(metadata.MD)         {}
func (c *collectStream) SendMsg(m any) error            { return nil }
func (c *collectStream) RecvMsg(m any) error            { return nil }
func (c *collectStream) Send(r *openfgav1.StreamedListObjectsResponse) error {
	c.mu.Lock()
	c.objs = append(c.objs, r.GetObject())
	c.mu.Unlock()
	return nil
}

// SrvListUsers returns the users as strings (type:id, type:*, type:id#rel).
func (e *Env) SrvListUsers(ctx context.Context, s *server.Server, rq gen.Request) ([]string, error) {
	t0 := time.Now()
	defer func() { e.Truncated = time.Since(t0) >= time.Duration(e.Sc.Knob("lu_deadline_ms", 3000))*time.Millisecond }()
	return timed(e, fmt.Sprintf("ListUsers(%s#%s filter=%s)", rq.Obj, rq.Rel, rq.Filter), func() ([]string, error) { return e.srvListUsers(ctx, s, rq) })
}

func (e *Env) srvListUsers(ctx context.Context, s *server.Server, rq gen.Request) ([]string, error) {
	ft, fr := rq.Filter, ""
	if i := strings.IndexByte(ft, '#'); i >= 0 {
		ft, fr = ft[:i], ft[i+1:]
	}
	ot, oid, _ := rm.SplitUser(rq.Obj)
	var ct []*openfgav1.TupleKey
	for _, t := range rq.CtxTuples {
		ct = append(ct, t.TupleKey())
	}
	resp, err := s.ListUsers(ctx, &openfgav1.ListUsersRequest{
		StoreId:              e.storeOf(rq),
		AuthorizationModelId: e.modelOf(rq),
		Object:               &openfgav1.Object{Type: ot, Id: oid},
		Relation:             rq.Rel,
		UserFilters:          []*openfgav1.UserTypeFilter{{Type: ft, Relation: fr}},
		ContextualTuples:     ct,
		Context:              rm.MustStruct(rq.Ctx),
		Consistency:          consistency(rq.HC),
	})
	if err != nil {
		return nil, err
	}
	var out []string
	for _, u := range resp.GetUsers() {
		out = append(out, UserString(u))
	}
	return out, nil
}

func UserString(u *openfgav1.User) string {
	switch x := u.GetUser().(type) {
	case *openfgav1.User_Object:
		return x.Object.GetType() + ":" + x.Object.GetId()
	case *openfgav1.User_Wildcard:
		return x.Wildcard.GetType() + ":*"
	case *openfgav1.User_Userset:
		return x.Userset.GetType() + ":" + x.Userset.GetId() + "#" + x.Userset.GetRelation()
	}
	return "?"
}

// BatchOutcome is one item's outcome.
type BatchOutcome struct {
	Allowed bool
	Err     string
	Present bool
}

// SrvBatchCheck issues a BatchCheck; items get correlation ids "i0", "i1", ...
func (e *Env) SrvBatchCheck(ctx context.Context, s *server.Server, rq gen.Request) (map[string]BatchOutcome, int, error) {
	req := &openfgav1.BatchCheckRequest{StoreId: e.storeOf(rq), AuthorizationModelId: e.modelOf(rq), Consistency: consistency(rq.HC)}
	for i, it := range rq.Items {
		req.Checks = append(req.Checks, &openfgav1.BatchCheckItem{
			TupleKey:         tuple.NewCheckRequestTupleKey(it.Obj, it.Rel, it.User),
			ContextualTuples: CtxTupleKeys(it.CtxTuples),
			Context:          rm.MustStruct(it.Ctx),
			CorrelationId:    fmt.Sprintf("i%d", i),
		})
	}
	resp, err := s.BatchCheck(ctx, req)
	if err != nil {
		return nil, 0, err
	}
	out := map[string]BatchOutcome{}
	for id, r := range resp.GetResult() {
		bo := BatchOutcome{Present: true}
		switch x := r.GetCheckResult().(type) {
		case *openfgav1.BatchCheckSingleResult_Allowed:
			bo.Allowed = x.Allowed
		case *openfgav1.BatchCheckSingleResult_Error:
			bo.Err = x.Error.GetMessage()
			if bo.Err == "" {
				bo.Err = "error"
			}
		}
		out[id] = bo
	}
	return out, len(resp.GetResult()), nil
}

// ---------------------------------------------------------------- judges

func dupes(xs []string) []string {
	seen := map[string]int{}
	var d []string
	for _, x := range xs {
		seen[x]++
		if seen[x] == 2 {
			d = append(d, x)
		}
	}
	return d
}

func toSet(xs []string) map[string]bool {
	m := map[string]bool{}
	for _, x := range xs {
		m[x] = true
	}
	return m
}

func sorted(xs []string) []string {
	o := append([]string(nil), xs...)
	sort.Strings(o)
	return o
}

// JudgeListObjects: returned ⊆ may (true under some resolution of unevaluable conditions), no
// duplicates; when not truncated and no error: returned ⊇ must. limit>0: if the limit applied the
// response holds exactly limit distinct permitted objects.
func (e *Env) JudgeListObjects(who string, rq gen.Request, st *rm.State, got []string, err error, faulty bool, limit int, truncatedByDeadline bool) {
	if rm.IsUserset(rq.User) {
		st.WithExtra(rm.UserObject(rq.User)) // a userset is a member of itself
	}
	must, may, n, approx := st.ListObjectsSuper(rq.Type, rq.Rel, rq.User, rq.Ctx)
	e.Out.Evals++
	desc := fmt.Sprintf("%s listobjects(%s#%s@%s ctx=%v ctxt=%v)", who, rq.Type, rq.Rel, rq.User, rq.Ctx, rq.CtxTuples)
	sig := "subj=" + subjKind(rq.User)
	if rel := e.Sc.Model.Rel(rq.Type, rq.Rel); rel != nil {
		sig += " rewrite=" + RewriteShape(rel.Rewrite)
	}
	eng := e.LoEngine
	if eng < 0 {
		eng = int(e.Sc.Knob("lo_engine", 0))
	}
	sig += " engine=" + []string{"classic", "weighted", "pipeline", "pipeline+weighted"}[eng&3] + e.SigExtra
	if err != nil {
		ec := Classify(err)
		switch {
		case ec == ErrDepth:
			simrt.Probe("depth_exceeded")
		case faulty:
			simrt.Probe("error_under_fault")
		case truncatedByDeadline && (ec == ErrDeadline || ec == ErrOther):
			// C20 allows "a result or an error" at the deadline; C05 only constrains what a response contains
			simrt.Probe("error_at_deadline")
		case n > 0 && (ec == ErrCondition || ec == ErrOther || ec == ErrValidation):
			simrt.Probe("error_with_unevaluable_condition")
		default:
			e.Violate("unexpected_error:"+errKind(err), "err="+errSig(err), "%s: error %v (must=%v)", desc, err, must)
		}
		return
	}
	if d := dupes(got); len(d) > 0 {
		e.Violate("duplicate_object", sig, "%s: objects returned twice: %v (got %v)", desc, d, got)
		return
	}
	maySet := toSet(may)
	for _, o := range got {
		if !maySet[o] {
			chk := rq
			chk.Obj = o
			e.Violate("object_not_permitted", sig+e.grantTags(st, chk), "%s: returned %s which does not hold the relation (got %v, permitted %v)", desc, o, sorted(got), may)
			return
		}
	}
	if approx {
		simrt.Probe("approx_skipped")
		return
	}
	gotSet := toSet(got)
	if limit > 0 && len(must) >= limit {
		// the limit applies (at least limit objects are certainly permitted)
		if len(got) != limit && !truncatedByDeadline && !faulty {
			if len(may) > len(must) && len(got) > limit {
				return
			}
			s2 := sig
			if len(got) < limit {
				for _, o := range must {
					if !gotSet[o] {
						s2 = sig + e.missingTags(st, rq, o)
						break
					}
				}
			}
			e.Violate("limit_not_exact", s2, "%s: limit %d applies (>= %d permitted) but %d objects returned: %v", desc, limit, len(must), len(got), sorted(got))
		}
		simrt.Probe("limit_applied")
		return
	}
	if limit > 0 && len(got) > limit {
		e.Violate("limit_exceeded", sig, "%s: %d objects returned with limit %d", desc, len(got), limit)
		return
	}
	if truncatedByDeadline || faulty {
		return
	}
	if limit > 0 && len(may) > limit {
		return // may have been cut among undecided candidates
	}
	for _, o := range must {
		if !gotSet[o] {
			e.Violate("object_missing", sig+e.missingTags(st, rq, o), "%s: %s holds the relation but was not returned (got %v, expected %v, unevaluable=%d)", desc, o, sorted(got), must, n)
			return
		}
	}
	if len(got) > 0 {
		simrt.Probe("lo_nonempty")
	} else {
		simrt.Probe("lo_empty")
	}
}

// missingTags discriminates the known shapes in which an engine loses a permitted object.
func (e *Env) missingTags(st *rm.State, rq gen.Request, o string) string {
	if d := e.denyTags(st, rm.ObjType(o), rq.Rel); d != "" {
		return d
	}
	switch {
	case st.DiffSubtrahendReachesCycle(o, rq.Rel):
		return " diff_subtrahend_reaches_tuple_cycle"
	case st.ShadowedSibling(rq.User, rq.Ctx):
		return " unsatisfied_conditional_tuple_shadows_sibling_of_same_object"
	case DirectUsersetAndComputedSameRelation(e.Sc.Model, rm.ObjType(o), rq.Rel):
		return " direct_userset_and_computed_of_same_relation"
	case RepeatsLeaf(e.Sc.Model):
		return " model_repeats_a_leaf_operand_in_one_relation"
	case SharedSetOperator(e.Sc.Model, rm.ObjType(o), rq.Rel):
		return " intersection_or_exclusion_reached_over_two_edges"
	case SharedNodeUnderSetOperator(e.Sc.Model, rm.ObjType(o), rq.Rel):
		return " relation_reached_over_two_edges_under_a_set_operator"
	}
	return ""
}

// ReachesKind reports whether evaluation of typ#rel can reach a rewrite node of the given kind
// (following computed usersets, tuple-to-usersets and direct userset restrictions).
func ReachesKind(m *rm.Model, typ, rel string, kind rm.RewriteKind) bool {
	type node struct{ t, r string }
	seen := map[node]bool{}
	stack := []node{{typ, rel}}
	for len(stack) > 0 {
		n := stack[len(stack)-1]
		stack = stack[:len(stack)-1]
		if seen[n] {
			continue
		}
		seen[n] = true
		r := m.Rel(n.t, n.r)
		if r == nil {
			continue
		}
		found := false
		var walk func(rw *rm.Rewrite)
		walk = func(rw *rm.Rewrite) {
			if rw.Kind == kind {
				found = true
			}
			switch rw.Kind {
			case rm.Computed:
				stack = append(stack, node{n.t, rw.Relation})
			case rm.TTU:
				if ts := m.Rel(n.t, rw.Tupleset); ts != nil {
					for _, res := range ts.Restrictions {
						stack = append(stack, node{res.Type, rw.Relation})
					}
				}
			}
			for _, c := range rw.Children {
				walk(c)
			}
		}
		walk(r.Rewrite)
		if found {
			return true
		}
		for _, res := range r.Restrictions {
			if res.Relation != "" {
				stack = append(stack, node{res.Type, res.Relation})
			}
		}
	}
	return false
}

// ReachesMutualRecursion: evaluation of typ#rel can reach a cycle of the type-level dependency
// graph that passes through at least two different relations (computed / tuple-to-userset /
// direct-userset edges).
func ReachesMutualRecursion(m *rm.Model, typ, rel string) bool {
	type node struct{ t, r string }
	succ := func(n node) []node {
		var out []node
		r := m.Rel(n.t, n.r)
		if r == nil {
			return nil
		}
		var walk func(rw *rm.Rewrite)
		walk = func(rw *rm.Rewrite) {
			switch rw.Kind {
			case rm.Computed:
				out = append(out, node{n.t, rw.Relation})
			case rm.TTU:
				if ts := m.Rel(n.t, rw.Tupleset); ts != nil {
					for _, res := range ts.Restrictions {
						out = append(out, node{res.Type, rw.Relation})
					}
				}
			}
			for _, c := range rw.Children {
				walk(c)
			}
		}
		walk(r.Rewrite)
		for _, res := range r.Restrictions {
			if res.Relation != "" {
				out = append(out, node{res.Type, res.Relation})
			}
		}
		return out
	}
	reach := func(from node) map[node]bool {
		seen := map[node]bool{}
		st := succ(from)
		for len(st) > 0 {
			x := st[len(st)-1]
			st = st[:len(st)-1]
			if seen[x] {
				continue
			}
			seen[x] = true
			st = append(st, succ(x)...)
		}
		return seen
	}
	start := node{typ, rel}
	all := reach(start)
	all[start] = true
	for a := range all {
		ra := reach(a)
		if !ra[a] {
			continue
		}
		for b := range ra {
			if b != a && reach(b)[a] {
				return true
			}
		}
	}
	return false
}

// SelfRecursiveTTU: some relation T#r reachable from typ#rel contains the tuple-to-userset `r from ts`
// whose tupleset admits objects of T itself (viewer: ... or viewer from parent; parent: [T]).
func SelfRecursiveTTU(m *rm.Model, typ, rel string) bool {
	type node struct{ t, r string }
	seen := map[node]bool{}
	stack := []node{{typ, rel}}
	for len(stack) > 0 {
		n := stack[len(stack)-1]
		stack = stack[:len(stack)-1]
		if seen[n] {
			continue
		}
		seen[n] = true
		r := m.Rel(n.t, n.r)
		if r == nil {
			continue
		}
		found := false
		var walk func(rw *rm.Rewrite)
		walk = func(rw *rm.Rewrite) {
			switch rw.Kind {
			case rm.Computed:
				stack = append(stack, node{n.t, rw.Relation})
			case rm.TTU:
				if ts := m.Rel(n.t, rw.Tupleset); ts != nil {
					for _, res := range ts.Restrictions {
						stack = append(stack, node{res.Type, rw.Relation})
						if res.Type == n.t && rw.Relation == n.r {
							found = true
						}
					}
				}
			}
			for _, c := range rw.Children {
				walk(c)
			}
		}
		walk(r.Rewrite)
		if found {
			return true
		}
		for _, res := range r.Restrictions {
			if res.Relation != "" {
				stack = append(stack, node{res.Type, res.Relation})
			}
		}
	}
	return false
}

// SelfRecursiveUsersetUnion: some relation reachable from typ#rel is directly assignable to its own
// userset (T#r on T#r), alone or next to further branches.
func SelfRecursiveUsersetUnion(m *rm.Model, typ, rel string) bool {
	type node struct{ t, r string }
	seen := map[node]bool{}
	stack := []node{{typ, rel}}
	for len(stack) > 0 {
		n := stack[len(stack)-1]
		stack = stack[:len(stack)-1]
		if seen[n] {
			continue
		}
		seen[n] = true
		r := m.Rel(n.t, n.r)
		if r == nil {
			continue
		}
		var walk func(rw *rm.Rewrite)
		walk = func(rw *rm.Rewrite) {
			switch rw.Kind {
			case rm.Computed:
				stack = append(stack, node{n.t, rw.Relation})
			case rm.TTU:
				if ts := m.Rel(n.t, rw.Tupleset); ts != nil {
					for _, res := range ts.Restrictions {
						stack = append(stack, node{res.Type, rw.Relation})
					}
				}
			}
			for _, c := range rw.Children {
				walk(c)
			}
		}
		walk(r.Rewrite)
		for _, res := range r.Restrictions {
			if res.Relation != "" {
				stack = append(stack, node{res.Type, res.Relation})
				if res.Type == n.t && res.Relation == n.r {
					return true
				}
			}
		}
	}
	return false
}

// DirectUsersetAndComputedSameRelation: some relation reachable from typ#rel combines, in one
// rewrite, a direct userset restriction T#x with a computed userset x on the same type T (two
// different edges into the same node of the weighted graph).
func DirectUsersetAndComputedSameRelation(m *rm.Model, typ, rel string) bool {
	type node struct{ t, r string }
	seen := map[node]bool{}
	stack := []node{{typ, rel}}
	for len(stack) > 0 {
		n := stack[len(stack)-1]
		stack = stack[:len(stack)-1]
		if seen[n] {
			continue
		}
		seen[n] = true
		r := m.Rel(n.t, n.r)
		if r == nil {
			continue
		}
		computed := map[string]bool{}
		var walk func(rw *rm.Rewrite)
		walk = func(rw *rm.Rewrite) {
			switch rw.Kind {
			case rm.Computed:
				computed[rw.Relation] = true
				stack = append(stack, node{n.t, rw.Relation})
			case rm.TTU:
				if ts := m.Rel(n.t, rw.Tupleset); ts != nil {
					for _, res := range ts.Restrictions {
						stack = append(stack, node{res.Type, rw.Relation})
					}
				}
			}
			for _, c := range rw.Children {
				walk(c)
			}
		}
		walk(r.Rewrite)
		// computed usersets that are pure aliases (y: x) count as the relation they alias
		for y := range computed {
			cur := y
			for i := 0; i < 8; i++ {
				ry := m.Rel(n.t, cur)
				if ry == nil || ry.Rewrite.Kind != rm.Computed {
					break
				}
				cur = ry.Rewrite.Relation
				computed[cur] = true
			}
		}
		for _, res := range r.Restrictions {
			if res.Relation != "" {
				stack = append(stack, node{res.Type, res.Relation})
				if res.Type == n.t && computed[res.Relation] {
					return true
				}
			}
		}
	}
	return false
}

func subjKind(u string) string {
	if rm.IsUserset(u) {
		return "userset"
	}
	if rm.IsWildcard(u) {
		return "wildcard"
	}
	return "object"
}

// JudgeListUsers (C06): every entry holds the relation when checked individually, no duplicates,
// matches the filter; untruncated => every concrete user of the filter type occurring in the data
// that holds the relation is returned explicitly or through a returned wildcard of its type.
func (e *Env) JudgeListUsers(who string, rq gen.Request, st *rm.State, got []string, err error, faulty bool) {
	e.Out.Evals++
	desc := fmt.Sprintf("%s listusers(%s#%s filter=%s ctx=%v ctxt=%v)", who, rq.Obj, rq.Rel, rq.Filter, rq.Ctx, rq.CtxTuples)
	sig := "filter=" + map[bool]string{true: "userset", false: "type"}[strings.Contains(rq.Filter, "#")]
	if rel := e.Sc.Model.Rel(rm.ObjType(rq.Obj), rq.Rel); rel != nil {
		sig += " rewrite=" + RewriteShape(rel.Rewrite)
	}
	if ReachesKind(e.Sc.Model, rm.ObjType(rq.Obj), rq.Rel, rm.Difference) {
		sig += " reaches_exclusion"
		// how many typed-wildcard tuples of the filter's type the state holds (the wildcard handling of
		// exclusions is a code path of its own)
		nw := 0
		for _, t := range st.Tuples {
			if rm.IsWildcard(t.User) && rm.ObjType(t.User) == strings.SplitN(rq.Filter, "#", 2)[0] {
				nw++
			}
		}
		switch {
		case nw >= 2:
			sig += " wildcard_tuples=several"
		case nw == 1:
			sig += " wildcard_tuples=one"
		}
	}
	sig += e.SigExtra
	nUneval := len(st.Unevaluable(rq.Ctx))
	if err != nil {
		ec := Classify(err)
		switch {
		case ec == ErrDepth:
			simrt.Probe("depth_exceeded")
		case faulty:
			simrt.Probe("error_under_fault")
		case nUneval > 0:
			simrt.Probe("error_with_unevaluable_condition")
		default:
			e.Violate("unexpected_error:"+errKind(err), "err="+errSig(err), "%s: error %v", desc, err)
		}
		return
	}
	if d := dupes(got); len(d) > 0 {
		e.Violate("duplicate_user", sig, "%s: users returned twice: %v (got %v)", desc, d, got)
		return
	}
	ft, fr := rq.Filter, ""
	if i := strings.IndexByte(ft, '#'); i >= 0 {
		ft, fr = ft[:i], ft[i+1:]
	}
	for _, u := range got {
		ut, _, ur := rm.SplitUser(u)
		if ut != ft || ur != fr {
			e.Violate("filter_mismatch", sig, "%s: returned %s does not match filter %s", desc, u, rq.Filter)
			return
		}
		sup := st.CheckSuper(rq.Obj, rq.Rel, u, rq.Ctx)
		if !sup.CanBeTrue {
			s2 := sig + " entry=" + subjKind(u)
			if e.Truncated && gen.HasKind(e.Sc.Model, rm.Difference) {
				s2 += " deadline_truncated_with_exclusion"
			}
			e.Violate("user_not_permitted", s2, "%s: returned %s which does not hold the relation when checked individually (got %v)", desc, u, sorted(got))
			return
		}
	}
	if faulty || fr != "" {
		return
	}
	if e.Truncated {
		// the deadline applied (e.g. the breadth limit serialised the expansion until the ListUsers
		// deadline fired): completeness is not required then
		simrt.Probe("lu_deadline_truncated")
		return
	}
	gotSet := toSet(got)
	if gotSet[ft+":*"] {
		simrt.Probe("lu_wildcard_returned")
	}
	// concrete users of the filter type that appear in the data
	cands := map[string]bool{}
	for _, t := range st.Tuples {
		for _, x := range []string{t.Obj, rm.UserObject(t.User)} {
			if rm.ObjType(x) == ft && !rm.IsWildcard(x) {
				cands[x] = true
			}
		}
	}
	var cs []string
	for c := range cands {
		cs = append(cs, c)
	}
	sort.Strings(cs)
	for _, c := range cs {
		sup := st.CheckSuper(rq.Obj, rq.Rel, c, rq.Ctx)
		if sup.Approx || sup.CanBeFalse {
			continue
		}
		if !gotSet[c] && !gotSet[ft+":*"] {
			s2 := sig
			if st.DiffSubtrahendReachesCycle(rq.Obj, rq.Rel) {
				s2 += " diff_subtrahend_reaches_tuple_cycle"
			}
			e.Violate("user_missing", s2, "%s: %s holds the relation but is neither returned nor covered by a returned wildcard (got %v)", desc, c, sorted(got))
			return
		}
	}
	if len(got) > 0 {
		simrt.Probe("lu_nonempty")
	} else {
		simrt.Probe("lu_empty")
	}
}

// ListUsersEquivalent: two ListUsers answers for one state are the same answer if they differ only
// in concrete users that a wildcard of their type, present in BOTH answers, already covers (C06:
// "returned either explicitly or through a returned wildcard of its type" — whether such a user is
// also listed by name depends on which branch of the expansion finishes first).
func ListUsersEquivalent(a, b []string) bool {
	as, bs := toSet(a), toSet(b)
	covered := func(u string) bool {
		if rm.IsWildcard(u) || rm.IsUserset(u) {
			return false
		}
		w := rm.ObjType(u) + ":*"
		return as[w] && bs[w]
	}
	for u := range as {
		if !bs[u] && !covered(u) {
			return false
		}
	}
	for u := range bs {
		if !as[u] && !covered(u) {
			return false
		}
	}
	return true
}

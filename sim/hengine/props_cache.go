package hengine

import (
	"context"
	"fmt"
	"strings"
	"sync"
	"testing"
	"time"

	openfgav1 "github.com/openfga/api/proto/openfga/v1"
	"golang.org/x/sync/singleflight"

	"github.com/openfga/openfga/internal/graph"
	"github.com/openfga/openfga/internal/shared"
	"github.com/openfga/openfga/internal/verifsim/gen"
	"github.com/openfga/openfga/internal/verifsim/harness"
	rm "github.com/openfga/openfga/internal/verifsim/refmodel"
	"github.com/openfga/openfga/internal/verifsim/simrt"
	"github.com/openfga/openfga/internal/verifsim/simstore"
	"github.com/openfga/openfga/pkg/server"
	"github.com/openfga/openfga/pkg/server/commands"
	serverconfig "github.com/openfga/openfga/pkg/server/config"
	"github.com/openfga/openfga/pkg/tuple"
)

// cacheCfg selects the cache layers of a command-level checker.
type cacheCfg struct {
	query, iter, sharedIter, controller bool
	ttl                                 time.Duration
	iterMax                             uint32
}

func (c cacheCfg) settings() serverconfig.CacheSettings {
	s := serverconfig.NewDefaultCacheSettings()
	s.CheckQueryCacheEnabled = c.query
	s.CheckQueryCacheTTL = c.ttl
	s.CheckIteratorCacheEnabled = c.iter
	s.CheckIteratorCacheTTL = c.ttl
	s.CheckIteratorCacheMaxResults = c.iterMax
	s.ListObjectsIteratorCacheEnabled = c.iter
	s.ListObjectsIteratorCacheTTL = c.ttl
	s.ListObjectsIteratorCacheMaxResults = c.iterMax
	s.SharedIteratorEnabled = c.sharedIter
	s.SharedIteratorLimit = 100
	s.SharedIteratorTTL = 4 * time.Minute
	s.CacheControllerEnabled = c.controller
	s.CacheControllerTTL = 10 * time.Second
	if c.iterMax == 0 {
		s.CheckIteratorCacheMaxResults = 1000
		s.ListObjectsIteratorCacheMaxResults = 1000
	}
	return s
}

// cachedCommandChecker builds the v1 command-level stack the way the server does, but with a forced
// planner: CachedCheckResolver (optional) -> LocalChecker, CheckCommand with the shared datastore
// resources (iterator caches, shared iterators) over one SimCache.
func (e *Env) cachedCommandChecker(cc cacheCfg, cache *simstore.Cache, serverCtx context.Context) (checker, error) {
	sc := e.Sc
	settings := cc.settings()
	var sopts []shared.SharedDatastoreResourcesOpt
	if cache != nil {
		sopts = append(sopts, shared.WithCheckCache(cache))
	}
	res, err := shared.NewSharedDatastoreResources(serverCtx, &singleflight.Group{}, e.DS, settings, sopts...)
	if err != nil {
		return nil, err
	}
	e.OnClose(res.Close)
	pl := simstore.NewPlanner(e.Run, int(sc.Knob("plan_policy", 0)))
	lopts := []graph.LocalCheckerOption{
		graph.WithPlanner(pl),
		graph.WithResolveNodeBreadthLimit(uint32(sc.Knob("breadth", 25))),
		graph.WithOptimizations(sc.Knob("optimizations", 0) == 1),
	}
	bopts := []graph.CheckResolverOrderedBuilderOpt{graph.WithLocalCheckerOpts(lopts...)}
	if cc.query && cache != nil {
		bopts = append(bopts, graph.WithCachedCheckResolverOpts(true, graph.WithExistingCache(cache), graph.WithCacheTTL(cc.ttl)))
	}
	resolver, closer, err := graph.NewOrderedCheckResolvers(bopts...).Build()
	if err != nil {
		return nil, err
	}
	e.OnClose(closer)
	return func(ctx context.Context, rq gen.Request) (bool, error) {
		cmd := commands.NewCheckCommand(e.DS, resolver, e.TS, commands.WithCheckCommandCache(res, settings))
		r, err := cmd.Execute(ctx, &commands.CheckCommandParams{
			StoreID:          e.storeOf(rq),
			TupleKey:         tuple.NewCheckRequestTupleKey(rq.Obj, rq.Rel, rq.User),
			ContextualTuples: CtxTupleKeys(rq.CtxTuples),
			Context:          rm.MustStruct(rq.Ctx),
			Consistency:      consistency(rq.HC),
		})
		if err != nil {
			return false, err
		}
		return r.Allowed, nil
	}, nil
}

// overlappingChecks draws requests whose sub-problems overlap: few subjects, every object/relation,
// inner relations after outer ones and vice versa.
func overlappingChecks(g *gen.G, sc *gen.Scenario, n int) []gen.Request {
	base := g.CheckRequests(sc.Model, n*2, [3]float64{0.8, 0.05, 0.15})
	if len(base) == 0 {
		return nil
	}
	subj := []string{base[0].User, base[len(base)/2].User}
	var out []gen.Request
	// sub-problems on userset cycles: ask about every atom that is the user of a userset tuple, for
	// the same subject, outer atoms before inner ones and again in reverse
	var atoms []string
	seen := map[string]bool{}
	for _, t := range sc.Tuples {
		if rm.IsUserset(t.User) {
			for _, a := range []string{t.Obj + "#" + t.Rel, t.User} {
				if !seen[a] {
					seen[a] = true
					atoms = append(atoms, a)
				}
			}
		}
	}
	if len(atoms) > 0 && g.Chance(0.6) {
		u := "user:" + []string{"a", "b", "c"}[g.Intn(3)]
		if len(atoms) > 6 {
			atoms = atoms[:6]
		}
		for pass := 0; pass < 2; pass++ {
			for i := range atoms {
				a := atoms[i]
				if pass == 1 {
					a = atoms[len(atoms)-1-i]
				}
				o, r, _ := cut(a, "#")
				if sc.Model.Rel(rm.ObjType(o), r) != nil {
					out = append(out, gen.Request{Kind: "check", Obj: o, Rel: r, User: u})
				}
			}
		}
	}
	for _, r := range base {
		if len(out) >= n {
			break
		}
		if g.Chance(0.75) {
			r.User = gen.Pick(g, subj)
		}
		if g.Chance(0.7) {
			r.Ctx = base[0].Ctx // same context => same cache keys
		}
		out = append(out, r)
		if g.Chance(0.25) {
			out = append(out, r) // immediate repetition (cache hit path)
		}
	}
	return out
}

// ---------------------------------------------------------------- C08

// plainVaries re-issues a request without caches up to four more times (other labels, hence other
// schedules) and reports whether the uncached engine itself gives an answer different from first.
func plainVaries(again func(k int) anyAns, first anyAns) bool {
	for k := 0; k < 4; k++ {
		if b := again(k); b.err != first.err || b.s != first.s {
			return true
		}
	}
	return false
}

func c08Gen(runSeed uint64, tier string) *gen.Scenario {
	sc := genEngineScenario(runSeed, tier, 0)
	g := gen.New(runSeed ^ 0xc08)
	sc.Requests = overlappingChecks(g, sc, 10+g.Intn(14))
	if g.Chance(0.15) || gen.Forced("shortcircuit") {
		// directed shape: a quick union branch short-circuits a slow sibling sub-problem
		sc.Model, sc.Tuples, sc.Requests = g.ShortCircuit()
	}
	for i := range sc.Requests {
		if g.Chance(0.1) {
			sc.Requests[i].Conc = 2 + g.Intn(2)
		}
	}
	sc.Knobs["plan_policy"] = int64(g.Intn(3)) // a fixed policy per run (never per-call): cached and uncached must see the same strategies
	sc.Knobs["breadth"] = []int64{1, 1, 2, 25}[g.Intn(4)]
	sc.Knobs["evict_pm"] = []int64{0, 0, 50, 200}[g.Intn(4)]
	sc.Knobs["drop_pm"] = []int64{0, 0, 100}[g.Intn(3)]
	sc.Knobs["ttl_ms"] = []int64{60000, 60000, 2}[g.Intn(3)]
	sc.Knobs["mode"] = int64(g.Intn(3)) // 0 = v1 command level, 1 = v1 server (check, batch, listobjects), 2 = v2 server
	sc.Knobs["iter_latency"] = int64(g.Intn(2))
	sc.Knobs["faults"] = 0
	if g.Chance(0.3) {
		sc.Knobs["early_faults"] = 1 // storage errors only during the first third of the sequence
	}
	sc.Knobs["delay_mode"] = int64(g.Intn(simrt.NumModes))
	return sc
}

func c08Exec(t *testing.T, sc *gen.Scenario, trace bool) *harness.Outcome {
	return runBubble(t, sc, trace, func(e *Env) {
		cache := simstore.NewCache(e.Run)
		cache.EvictRate = float64(sc.Knob("evict_pm", 0)) / 1000
		cache.DropRate = float64(sc.Knob("drop_pm", 0)) / 1000
		ttl := time.Duration(sc.Knob("ttl_ms", 60000)) * time.Millisecond
		mode := sc.Knob("mode", 0)
		// every Next of a storage iterator takes (virtual) time: a sibling's answer can then arrive while a
		// strategy is in the middle of consuming rows, not only while it opens its reads
		e.DS.SetIterLatency(sc.Knob("iter_latency", 0) == 1)
		var cached, plain func(ctx context.Context, rq gen.Request) anyAns
		switch mode {
		case 0:
			srvCtx, cancel := context.WithCancel(context.Background())
			e.OnClose(cancel)
			c1, err := e.cachedCommandChecker(cacheCfg{query: true, ttl: ttl}, cache, srvCtx)
			if err != nil {
				e.Out.Infra = "cached checker: " + err.Error()
				return
			}
			c0, err := e.cachedCommandChecker(cacheCfg{}, nil, srvCtx)
			if err != nil {
				e.Out.Infra = "plain checker: " + err.Error()
				return
			}
			wrap := func(c checker) func(ctx context.Context, rq gen.Request) anyAns {
				return func(ctx context.Context, rq gen.Request) anyAns {
					a, err := timed(e, fmt.Sprintf("Check(%s#%s@%s)", rq.Obj, rq.Rel, rq.User), func() (bool, error) { return c(ctx, rq) })
					return anyAns{fmt.Sprint(a), noteErr(err), false}
				}
			}
			cached, plain = wrap(c1), wrap(c0)
		default:
			ex := Experimentals(sc)
			if mode == 2 {
				ex = append(ex, "weighted_graph_check")
			}
			s1, err := e.NewServer(server.WithExperimentals(ex...), server.WithCheckCache(cache), server.WithCheckQueryCacheEnabled(true), server.WithCheckQueryCacheTTL(ttl))
			if err != nil {
				e.Out.Infra = "server: " + err.Error()
				return
			}
			s0, err := e.NewServer(server.WithExperimentals(ex...))
			if err != nil {
				e.Out.Infra = "server: " + err.Error()
				return
			}
			cached = func(ctx context.Context, rq gen.Request) anyAns { return e.issue(ctx, s1, e.StoreID, rq) }
			plain = func(ctx context.Context, rq gen.Request) anyAns { return e.issue(ctx, s0, e.StoreID, rq) }
		}
		for i, rq := range sc.Requests {
			// server modes also exercise BatchCheck and ListObjects over the same cache
			rq2 := rq
			if mode != 0 && i%5 == 3 {
				rq2 = gen.Request{Kind: "listobjects", Type: rm.ObjType(rq.Obj), Rel: rq.Rel, User: rq.User, Ctx: rq.Ctx}
			}
			if sc.Knob("early_faults", 0) == 1 {
				if i < len(sc.Requests)/3 {
					e.DS.SetFaults(simstore.FaultOpenErr|simstore.FaultIterErr, 0.15)
				} else {
					e.DS.SetFaults(0, 0)
				}
			}
			n := rq.Conc
			if n < 1 {
				n = 1
			}
			res := make([]anyAns, n)
			var wg sync.WaitGroup
			for k := 0; k < n; k++ {
				wg.Add(1)
				k := k
				run := func() {
					defer wg.Done()
					ctx, cancel := reqCtx(i, fmt.Sprintf(".cached.c%d", k), 10*time.Second)
					res[k] = cached(ctx, rq2)
					cancel()
				}
				if n == 1 {
					run()
				} else {
					e.Run.Go(fmt.Sprintf("client%d.%d", i, k), run)
				}
			}
			wg.Wait()
			if e.Out.Violation != nil {
				return
			}
			faultsNow := sc.Knob("early_faults", 0) == 1 && i < len(sc.Requests)/3
			e.DS.SetFaults(0, 0)
			ctx, cancel := reqCtx(i, ".plain", 10*time.Second)
			want := plain(ctx, rq2)
			cancel()
			e.Out.Evals++
			e.Run.Log("resp", fmt.Sprintf("r%d cached=%v plain=%v", i, res, want))
			if want.err {
				continue
			}
			uneval := len(stateFor(sc, rq2).Unevaluable(rq2.Ctx)) > 0
			if faultsNow {
				continue // faulty phase: only its after-effects on LATER requests are judged
			}
			for k, a := range res {
				if a.err {
					if !faultsNow && !uneval {
						e.Violate("cache_changes_answer", fmt.Sprintf("mode=%d kind=%s cached=error", mode, rq2.Kind), "request %d copy %d (%+v): failed (%s) with the query cache on, answered %s with caching disabled", i, k, rq2, lastErr, want.s)
						return
					}
					continue
				}
				if a.s != want.s && uneval && plainVaries(func(k int) anyAns {
					ctx, cancel := reqCtx(i, fmt.Sprintf(".plain%d", k+2), 10*time.Second)
					defer cancel()
					return plain(ctx, rq2)
				}, want) {
					// some stored condition cannot be evaluated for this request, and WITHOUT any cache the
					// answer already depends on the schedule (which branch answers first, whether the failing
					// tuple is reached: F9 and F10 live there; the supervaluation oracle of C01/C05 judges such
					// states): the difference is not the cache's doing
					simrt.Probe("uncached_answers_vary_with_unevaluable_condition")
					continue
				}
				if a.s != want.s {
					tag := e.engineTags(stateFor(sc, rq2), rq2)
					if rq2.Kind == "check" && ReachesMutualRecursion(sc.Model, rm.ObjType(rq2.Obj), rq2.Rel) {
						tag += " reaches_mutually_recursive_relations"
					}
					if rq2.Kind == "check" && SelfRecursiveUsersetUnion(sc.Model, rm.ObjType(rq2.Obj), rq2.Rel) {
						tag += " reaches_self_recursive_userset_in_union"
					}
					if rq2.Kind == "check" && SelfRecursiveTTU(sc.Model, rm.ObjType(rq2.Obj), rq2.Rel) {
						tag += " reaches_self_recursive_ttu"
					}
					e.Violate("cache_changes_answer", fmt.Sprintf("mode=%d kind=%s subj=%s%s", mode, rq2.Kind, subjKind(rq2.User), tag), "request %d copy %d (%+v): %s with the query cache on, %s with caching disabled (cache stats %v)", i, k, rq2, a.s, want.s, cache.Stats())
					return
				}
			}
			if ttl < time.Second && i%4 == 1 {
				time.Sleep(ttl + time.Duration(e.Run.Pick(3, "ttlstep", i))*time.Nanosecond - time.Nanosecond)
			}
		}
		st := cache.Stats()
		simrt.ProbeN("qcache_hits", st["hit"])
		simrt.ProbeN("qcache_sets", st["set"])
		e.Out.NonTrivial = len(sc.Tuples) > 0 && e.Out.Evals > 0 && st["hit"] > 0
	})
}

// ---------------------------------------------------------------- C09 iterator caches

func c09Gen(runSeed uint64, tier string) *gen.Scenario {
	sc := genEngineScenario(runSeed, tier, 0)
	g := gen.New(runSeed ^ 0xc09)
	sc.Requests = overlappingChecks(g, sc, 10+g.Intn(12))
	if g.Chance(0.1) {
		// directed shape: a quick union branch short-circuits a slow sibling sub-problem
		sc.Model, sc.Tuples, sc.Requests = g.ShortCircuit()
	}
	for i := range sc.Requests {
		switch g.Intn(10) {
		case 0, 1:
			sc.Requests[i].CancelAt = 1 + g.Intn(6) // cancel the client at its k-th storage operation
		case 2:
			sc.Requests[i].CancelAt = -(1 + g.Intn(6)) // deadline variant: negative = expire instead of cancel
		}
	}
	sc.Knobs["plan_policy"] = int64(g.Intn(3))
	sc.Knobs["breadth"] = []int64{1, 2, 25}[g.Intn(3)]
	sc.Knobs["iter_max"] = []int64{1, 2, 3, 5, 1000}[g.Intn(5)]
	sc.Knobs["shared_iter"] = int64(g.Intn(2))
	sc.Knobs["evict_pm"] = []int64{0, 0, 100}[g.Intn(3)]
	sc.Knobs["ttl_ms"] = []int64{60000, 60000, 3}[g.Intn(3)]
	sc.Knobs["bound_iters"] = int64(g.Intn(2)) // iterators stay bound to the context of the query that opened them (database/sql style)
	sc.Knobs["iter_latency"] = int64(g.Intn(2))
	sc.Knobs["late_cancel"] = int64(g.Intn(2)) // with iter_latency: some iterators check the context on entry only
	sc.Knobs["mode"] = int64(g.Intn(2)) // 0 command level, 1 server (check + listobjects)
	sc.Knobs["drain_wait"] = int64(g.Intn(3))
	sc.Knobs["faults"] = 0
	return sc
}

func c09Exec(t *testing.T, sc *gen.Scenario, trace bool) *harness.Outcome {
	return runBubble(t, sc, trace, func(e *Env) {
		cache := simstore.NewCache(e.Run)
		cache.EvictRate = float64(sc.Knob("evict_pm", 0)) / 1000
		ttl := time.Duration(sc.Knob("ttl_ms", 60000)) * time.Millisecond
		// request-bound iterators cannot be combined with iterators shared ACROSS requests (the second
		// request would read from an iterator whose owner is gone; the in-tree SQL iterator avoids that
		// with context.WithoutCancel)
		e.DS.BoundIterators = sc.Knob("bound_iters", 0) == 1 && sc.Knob("shared_iter", 0) == 0
		e.DS.SetIterLatency(sc.Knob("iter_latency", 0) == 1)
		e.DS.SetLateCancel(sc.Knob("late_cancel", 0) == 1)
		mode := sc.Knob("mode", 0)
		cc := cacheCfg{iter: true, sharedIter: sc.Knob("shared_iter", 0) == 1, ttl: ttl, iterMax: uint32(sc.Knob("iter_max", 1000))}
		var cached, plain func(ctx context.Context, rq gen.Request) anyAns
		if mode == 0 {
			srvCtx, cancel := context.WithCancel(context.Background())
			e.OnClose(cancel)
			c1, err := e.cachedCommandChecker(cc, cache, srvCtx)
			if err != nil {
				e.Out.Infra = "cached checker: " + err.Error()
				return
			}
			c0, err := e.cachedCommandChecker(cacheCfg{}, nil, srvCtx)
			if err != nil {
				e.Out.Infra = "plain checker: " + err.Error()
				return
			}
			wrap := func(c checker) func(ctx context.Context, rq gen.Request) anyAns {
				return func(ctx context.Context, rq gen.Request) anyAns {
					a, err := timed(e, fmt.Sprintf("Check(%s#%s@%s)", rq.Obj, rq.Rel, rq.User), func() (bool, error) { return c(ctx, rq) })
					return anyAns{fmt.Sprint(a), noteErr(err), false}
				}
			}
			cached, plain = wrap(c1), wrap(c0)
		} else {
			s1, err := e.NewServer(server.WithExperimentals(Experimentals(sc)...), server.WithCheckCache(cache),
				server.WithCheckIteratorCacheEnabled(true), server.WithCheckIteratorCacheTTL(ttl), server.WithCheckIteratorCacheMaxResults(cc.settings().CheckIteratorCacheMaxResults),
				server.WithListObjectsIteratorCacheEnabled(true), server.WithListObjectsIteratorCacheTTL(ttl), server.WithListObjectsIteratorCacheMaxResults(cc.settings().ListObjectsIteratorCacheMaxResults),
				server.WithSharedIteratorEnabled(cc.sharedIter), server.WithSharedIteratorLimit(100))
			if err != nil {
				e.Out.Infra = "server: " + err.Error()
				return
			}
			s0, err := e.NewServer(server.WithExperimentals(Experimentals(sc)...))
			if err != nil {
				e.Out.Infra = "server: " + err.Error()
				return
			}
			cached = func(ctx context.Context, rq gen.Request) anyAns { return e.issue(ctx, s1, e.StoreID, rq) }
			plain = func(ctx context.Context, rq gen.Request) anyAns { return e.issue(ctx, s0, e.StoreID, rq) }
		}
		for i, rq := range sc.Requests {
			rq2 := rq
			if mode != 0 && i%4 == 2 {
				rq2 = gen.Request{Kind: "listobjects", Type: rm.ObjType(rq.Obj), Rel: rq.Rel, User: rq.User, Ctx: rq.Ctx, CancelAt: rq.CancelAt}
			}
			id := fmt.Sprintf("r%d.cached", i)
			ctx, cancel := context.WithTimeout(simrt.WithReq(context.Background(), id), 10*time.Second)
			e.DS.BindRequest(id, ctx)
			interrupted := false
			if rq2.CancelAt != 0 {
				k := rq2.CancelAt
				expire := k < 0
				if expire {
					k = -k
				}
				// the fault lands INSIDE the request: at its k-th storage operation
				e.DS.Hook = func(_ context.Context, op simstore.OpInfo) {
					if op.Req == id && op.N == k && !interrupted {
						interrupted = true
						simrt.Probe(map[bool]string{true: "deadline_injected", false: "cancel_injected"}[expire])
						cancel()
					}
				}
			}
			a := cached(ctx, rq2)
			cancel()
			e.DS.Hook = nil
			if e.Out.Violation != nil {
				return
			}
			// let the background drain run (or not) before the next request
			switch sc.Knob("drain_wait", 0) {
			case 1:
				time.Sleep(time.Duration(1+e.Run.Pick(50, "drainwait", i)) * time.Microsecond)
			case 2:
				time.Sleep(2 * time.Second)
			}
			if interrupted {
				e.Run.Log("resp", fmt.Sprintf("r%d interrupted %v", i, a))
				continue // the interrupted request itself may fail or answer; later requests are judged
			}
			ctx, cancel = reqCtx(i, ".plain", 10*time.Second)
			want := plain(ctx, rq2)
			cancel()
			e.Out.Evals++
			e.Run.Log("resp", fmt.Sprintf("r%d cached=%v plain=%v", i, a, want))
			if want.err {
				continue
			}
			uneval := len(stateFor(sc, rq2).Unevaluable(rq2.Ctx)) > 0
			if a.err {
				if !uneval {
					tag := ""
					if cc.sharedIter && (strings.Contains(lastErr, "context canceled") || strings.Contains(lastErr, "Request Cancelled")) {
						tag = " shared_iterators uncancelled_request_fails_with_cancelled"
					}
					e.Violate("cache_changes_answer", fmt.Sprintf("mode=%d kind=%s cached=error%s", mode, rq2.Kind, tag), "request %d (%+v): failed (%s) with the iterator caches on, answered %s with caching disabled", i, rq2, lastErr, want.s)
					return
				}
				continue
			}
			if a.s != want.s && uneval && plainVaries(func(k int) anyAns {
				ctx, cancel := reqCtx(i, fmt.Sprintf(".plain%d", k+2), 10*time.Second)
				defer cancel()
				return plain(ctx, rq2)
			}, want) {
				simrt.Probe("uncached_answers_vary_with_unevaluable_condition")
				continue
			}
			if a.s != want.s {
				tag := e.engineTags(stateFor(sc, rq2), rq2)
				if rq2.Kind == "listobjects" {
					// F1 through ListObjects' residual Check: every object the two answers disagree on sits
					// behind an exclusion whose subtrahend reaches a tuple cycle
					st2, in, n := stateFor(sc, rq2), map[string]int{}, 0
					for _, o := range strings.Fields(a.s) {
						in[o]++
					}
					for _, o := range strings.Fields(want.s) {
						in[o]--
					}
					all := true
					for o, d := range in {
						if d != 0 {
							n++
							all = all && strings.Contains(o, ":") && st2.DiffSubtrahendReachesCycle(o, rq2.Rel)
						}
					}
					if n > 0 && all {
						tag = " diff_subtrahend_reaches_tuple_cycle"
					}
				}
				e.Violate("cache_changes_answer", fmt.Sprintf("mode=%d kind=%s%s", mode, rq2.Kind, tag), "request %d (%+v): %s with the iterator caches on, %s with caching disabled (cache stats %v)", i, rq2, a.s, want.s, cache.Stats())
				return
			}
			if ttl < time.Second && i%4 == 1 {
				time.Sleep(ttl)
			}
		}
		st := cache.Stats()
		simrt.ProbeN("icache_hits", st["hit"])
		simrt.ProbeN("icache_sets", st["set"])
		e.Out.NonTrivial = len(sc.Tuples) > 0 && e.Out.Evals > 0 && st["set"] > 0
	})
}

// ---------------------------------------------------------------- C10 HIGHER_CONSISTENCY

// dependentChecks lists Check requests whose evaluation reaches t.Obj#t.Rel one dispatch or more
// below the root: through a computed userset or a tuple-to-userset of the model, or through a stored
// userset tuple naming t.Obj#t.Rel.
func dependentChecks(m *rm.Model, tuples []rm.Tuple, t rm.Tuple) []gen.Request {
	user := t.User
	if rm.IsUserset(user) || rm.IsWildcard(user) {
		return nil
	}
	var out []gen.Request
	uses := func(rw *rm.Rewrite, pred func(*rm.Rewrite) bool) bool {
		found := false
		var walk func(*rm.Rewrite)
		walk = func(r *rm.Rewrite) {
			if pred(r) {
				found = true
			}
			for _, c := range r.Children {
				walk(c)
			}
		}
		walk(rw)
		return found
	}
	ot := rm.ObjType(t.Obj)
	if td := m.Type(ot); td != nil {
		for _, r := range td.Relations {
			if r.Name != t.Rel && uses(r.Rewrite, func(x *rm.Rewrite) bool { return x.Kind == rm.Computed && x.Relation == t.Rel }) {
				out = append(out, gen.Request{Kind: "check", Obj: t.Obj, Rel: r.Name, User: user})
			}
		}
	}
	for _, o := range tuples {
		if o.User == t.Obj+"#"+t.Rel {
			out = append(out, gen.Request{Kind: "check", Obj: o.Obj, Rel: o.Rel, User: user})
		}
		if o.User == t.Obj && m.IsTupleset(rm.ObjType(o.Obj), o.Rel) {
			if td := m.Type(rm.ObjType(o.Obj)); td != nil {
				for _, r := range td.Relations {
					if uses(r.Rewrite, func(x *rm.Rewrite) bool { return x.Kind == rm.TTU && x.Tupleset == o.Rel && x.Relation == t.Rel }) {
						out = append(out, gen.Request{Kind: "check", Obj: o.Obj, Rel: r.Name, User: user})
					}
				}
			}
		}
	}
	return out
}

func c10Gen(runSeed uint64, tier string) *gen.Scenario {
	sc := genEngineScenario(runSeed, tier, 0)
	g := gen.New(runSeed ^ 0xc10)
	// keep some valid tuples aside as the pool the history writes and deletes
	var pool []rm.Tuple
	var stored []rm.Tuple
	for _, t := range sc.Tuples {
		if sc.Model.ValidForWrite(t) && !sc.Model.AmbiguousCondShape(t) && g.Chance(0.5) {
			pool = append(pool, t)
		} else {
			stored = append(stored, t)
		}
	}
	sc.Tuples = stored
	reqs := overlappingChecks(g, sc, 8)
	present := map[string]bool{}
	var ops []gen.Op
	warm := func() {
		for _, r := range reqs {
			if g.Chance(0.6) {
				r := r
				ops = append(ops, gen.Op{Kind: "req", Req: &r})
			}
		}
	}
	warm()
	for round := 0; round < 3+g.Intn(3) && len(pool) > 0; round++ {
		t := gen.Pick(g, pool)
		if g.Chance(0.5) {
			// a cached-mode request that is still in flight while the write lands and the
			// higher-consistency requests that follow are served (it reads before the write and stores
			// what it computed after they have started)
			for k := 0; k < 1+g.Intn(2); k++ {
				r := gen.Pick(g, reqs)
				if dep := dependentChecks(sc.Model, stored, t); len(dep) > 0 && g.Chance(0.7) {
					r = gen.Pick(g, dep) // the written tuple sits below the root of this request
				} else if g.Chance(0.5) {
					r.Obj, r.Rel = t.Obj, t.Rel
					if !rm.IsUserset(t.User) && !rm.IsWildcard(t.User) {
						r.User = t.User
					}
				}
				ops = append(ops, gen.Op{Kind: "req", Req: &r, N: 1 + g.Intn(2), Dur: int64(g.Intn(60)) * int64(time.Microsecond)})
			}
		}
		if present[t.Key()] {
			ops = append(ops, gen.Op{Kind: "write", Deletes: []rm.Tuple{t}})
			present[t.Key()] = false
		} else {
			ops = append(ops, gen.Op{Kind: "write", Writes: []rm.Tuple{t}})
			present[t.Key()] = true
		}
		if g.Chance(0.3) {
			ops = append(ops, gen.Op{Kind: "sleep", Dur: int64(g.Intn(3)) * int64(time.Millisecond)})
		}
		// higher-consistency queries right after the write, about the things the write touches
		for k := 0; k < 2+g.Intn(3); k++ {
			r := gen.Pick(g, reqs)
			if dep := dependentChecks(sc.Model, stored, t); len(dep) > 0 && g.Chance(0.4) {
				r = gen.Pick(g, dep)
			} else if g.Chance(0.6) {
				r.Obj, r.Rel = t.Obj, t.Rel
				if !rm.IsUserset(t.User) && !rm.IsWildcard(t.User) {
					r.User = t.User
				}
			}
			r.HC = true
			switch g.Intn(4) {
			case 0:
				r = gen.Request{Kind: "listobjects", Type: rm.ObjType(r.Obj), Rel: r.Rel, User: r.User, Ctx: r.Ctx, HC: true}
			case 1:
				r = gen.Request{Kind: "listusers", Obj: r.Obj, Rel: r.Rel, Filter: "user", Ctx: r.Ctx, HC: true}
			}
			ops = append(ops, gen.Op{Kind: "req", Req: &r})
		}
		if g.Chance(0.5) {
			warm()
		}
	}
	sc.Ops = ops
	sc.Knobs["cache_flags"] = int64(g.Intn(32))
	sc.Knobs["plan_policy"] = int64(g.Intn(3))
	sc.Knobs["mode"] = int64(g.Intn(2))
	sc.Knobs["iter_max"] = []int64{2, 1000}[g.Intn(2)]
	sc.Knobs["faults"] = 0
	if g.Chance(0.5) {
		sc.Knobs["max_latency_ns"] = 200000 // slow storage: requests overlap the writes for longer
	}
	return sc
}

// applyWrite mutates the reference tuple list.
func applyWrite(cur []rm.Tuple, op gen.Op) []rm.Tuple {
	del := map[string]bool{}
	for _, d := range op.Deletes {
		del[d.Key()] = true
	}
	var out []rm.Tuple
	for _, t := range cur {
		if !del[t.Key()] {
			out = append(out, t)
		}
	}
	return append(out, op.Writes...)
}

func (e *Env) serverWrite(ctx context.Context, s *server.Server, op gen.Op) error {
	req := &openfgav1.WriteRequest{StoreId: e.StoreID, AuthorizationModelId: e.ModelID}
	if len(op.Writes) > 0 {
		req.Writes = &openfgav1.WriteRequestWrites{}
		for _, t := range op.Writes {
			req.Writes.TupleKeys = append(req.Writes.TupleKeys, t.TupleKey())
		}
	}
	if len(op.Deletes) > 0 {
		req.Deletes = &openfgav1.WriteRequestDeletes{}
		for _, t := range op.Deletes {
			req.Deletes.TupleKeys = append(req.Deletes.TupleKeys, &openfgav1.TupleKeyWithoutCondition{Object: t.Obj, Relation: t.Rel, User: t.User})
		}
	}
	_, err := s.Write(ctx, req)
	return err
}

func c10Exec(t *testing.T, sc *gen.Scenario, trace bool) *harness.Outcome {
	return runBubble(t, sc, trace, func(e *Env) {
		flags := sc.Knob("cache_flags", 0)
		cache := simstore.NewCache(e.Run)
		cc := cacheCfg{query: flags&1 != 0, iter: flags&2 != 0, sharedIter: flags&8 != 0, controller: flags&16 != 0, ttl: time.Minute, iterMax: uint32(sc.Knob("iter_max", 1000))}
		loIter := flags&4 != 0
		opts := []server.OpenFGAServiceV1Option{server.WithExperimentals(Experimentals(sc)...), server.WithCheckCache(cache),
			server.WithCheckQueryCacheEnabled(cc.query), server.WithCheckQueryCacheTTL(cc.ttl),
			server.WithCheckIteratorCacheEnabled(cc.iter), server.WithCheckIteratorCacheTTL(cc.ttl), server.WithCheckIteratorCacheMaxResults(cc.settings().CheckIteratorCacheMaxResults),
			server.WithListObjectsIteratorCacheEnabled(loIter), server.WithListObjectsIteratorCacheTTL(cc.ttl), server.WithListObjectsIteratorCacheMaxResults(cc.settings().CheckIteratorCacheMaxResults),
			server.WithSharedIteratorEnabled(cc.sharedIter), server.WithSharedIteratorLimit(100),
			server.WithCacheControllerEnabled(cc.controller), server.WithCacheControllerTTL(10 * time.Second)}
		s, err := e.NewServer(opts...)
		if err != nil {
			e.Out.Infra = "server: " + err.Error()
			return
		}
		var chk checker
		if sc.Knob("mode", 0) == 0 {
			srvCtx, cancel := context.WithCancel(context.Background())
			e.OnClose(cancel)
			chk, err = e.cachedCommandChecker(cc, cache, srvCtx)
			if err != nil {
				e.Out.Infra = "cached checker: " + err.Error()
				return
			}
		}
		cur := append([]rm.Tuple(nil), sc.Tuples...)
		var bg sync.WaitGroup
		var gate chan struct{}
		release := func() {
			if gate != nil {
				close(gate)
				gate = nil
			}
		}
		defer bg.Wait()
		defer release()
		for i, op := range sc.Ops {
			switch op.Kind {
			case "sleep":
				time.Sleep(time.Duration(op.Dur) + 1)
			case "write":
				ctx, cancel := reqCtx(i, ".write", 10*time.Second)
				err := e.serverWrite(ctx, s, op)
				cancel()
				e.Run.Log("write", fmt.Sprintf("op%d w=%v d=%v err=%v", i, op.Writes, op.Deletes, err != nil))
				if err != nil {
					e.Out.Infra = fmt.Sprintf("write of a valid tuple failed: %v", err)
					return
				}
				cur = applyWrite(cur, op)
				simrt.Probe("writes")
			case "req":
				rq := *op.Req
				if op.N >= 1 && !rq.HC {
					// in the background: only its effect on the caches matters
					label := fmt.Sprintf("r%d.bg", i)
					var reached chan struct{}
					if op.N == 2 {
						// held at its k-th storage operation (everything it read so far is the state before
						// the write) until a later request has started reading; then it goes on, and stores
						// what it computes from those reads
						release()
						k := 2 + int(e.Run.H("straddle", i)%4)
						reached = make(chan struct{})
						g, rc, done := make(chan struct{}), reached, false
						gate = g
						e.DS.Hook = func(ctx context.Context, oi simstore.OpInfo) {
							switch {
							case oi.Req == label && oi.N == k:
								close(rc)
								select {
								case <-g:
								case <-ctx.Done():
								}
							case oi.Req != label && !strings.HasSuffix(oi.Req, ".write") && !strings.HasSuffix(oi.Req, ".bg") && !done && oi.N >= 2:
								done = true
								release()
							}
						}
					}
					bg.Add(1)
					go func() {
						defer bg.Done()
						ctx, cancel := reqCtx(i, ".bg", 10*time.Second)
						defer cancel()
						if chk != nil && rq.Kind == "check" {
							_, _ = chk(ctx, rq)
						} else {
							_ = e.issue(ctx, s, e.StoreID, rq)
						}
					}()
					if reached != nil {
						select {
						case <-reached:
							simrt.Probe("requests_held_across_a_write")
						case <-time.After(50 * time.Millisecond):
						}
					} else {
						time.Sleep(time.Duration(op.Dur) + 1)
					}
					simrt.Probe("requests_in_flight_across_a_write")
					continue
				}
				st := rm.NewState(sc.Model, append(append([]rm.Tuple(nil), cur...), rq.CtxTuples...))
				ctx, cancel := reqCtx(i, "", 10*time.Second)
				var a anyAns
				if chk != nil && rq.Kind == "check" {
					al, err := timed(e, fmt.Sprintf("Check(%s#%s@%s)", rq.Obj, rq.Rel, rq.User), func() (bool, error) { return chk(ctx, rq) })
					a = anyAns{fmt.Sprint(al), err != nil, false}
				} else {
					a = e.issue(ctx, s, e.StoreID, rq)
				}
				cancel()
				e.Run.Log("resp", fmt.Sprintf("op%d hc=%v %s %v", i, rq.HC, rq.Kind, a))
				if !rq.HC {
					continue // cached-mode requests only warm the caches
				}
				simrt.Probe("hc_requests")
				e.SigExtra = " hc"
				trunc := e.Truncated
				if a.err {
					if len(st.Unevaluable(rq.Ctx)) == 0 {
						e.Violate("unexpected_error:internal", "hc kind="+rq.Kind, "HIGHER_CONSISTENCY %s %+v failed", rq.Kind, rq)
					}
				} else {
					switch rq.Kind {
					case "check":
						e.JudgeCheck("hc", rq, st, a.s == "true", nil, false)
					case "listobjects":
						var got []string
						if a.s != "" {
							got = strings.Split(a.s, ",")
						}
						e.JudgeListObjects("hc", rq, st, got, nil, false, 0, false)
					case "listusers":
						var got []string
						if a.s != "" {
							got = strings.Split(a.s, ",")
						}
						e.Truncated = trunc
						e.JudgeListUsers("hc", rq, st, got, nil, false)
					}
				}
				e.SigExtra = ""
				if e.Out.Violation != nil {
					return
				}
			}
		}
		stt := cache.Stats()
		simrt.ProbeN("cache_hits", stt["hit"])
		e.Out.NonTrivial = e.Out.Evals > 0
	})
}

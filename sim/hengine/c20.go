package hengine

import (
	"context"
	"fmt"
	"strings"
	"testing"
	"time"

	"github.com/openfga/openfga/internal/verifsim/gen"
	"github.com/openfga/openfga/internal/verifsim/harness"
	rm "github.com/openfga/openfga/internal/verifsim/refmodel"
	"github.com/openfga/openfga/internal/verifsim/simrt"
	"github.com/openfga/openfga/internal/verifsim/simstore"
	"github.com/openfga/openfga/pkg/server"
)

// C20: termination and resource release. Scenarios are the C01 space plus fan-out and long userset
// chains/cycles; all six query APIs; client deadlines (what the timeout interceptor sets), server
// side ListObjects/ListUsers deadlines, client cancellation at the k-th storage operation or after a
// seed-chosen amount of virtual time; storage stalls far longer than the deadlines; caches and
// shared iterators on in half of the runs (background fills).
//
// Oracle, all in virtual time, where scheduling slack is zero by construction:
//   (1) every call returns no later than its earliest applicable deadline/cancellation instant plus
//       c20Slack (late_return), and in any case within 120 s (hang);
//   (2) 30 s after the last call returned and the server was closed, no goroutine started inside the
//       run exists (goroutine_leak) and every storage iterator that was opened has been stopped
//       (iterator_leak).
const c20Slack = 250 * time.Millisecond

func c20Gen(runSeed uint64, tier string) *gen.Scenario {
	g := gen.New(runSeed ^ 0xc20)
	rec := []float64{0, 0.5, 1}[g.Intn(3)]
	sc := genEngineScenarioWith(runSeed, tier, 6, func(o *gen.ModelOpts) { o.Recursive = rec })
	if g.Chance(0.5) {
		stored := map[string]bool{}
		for _, t := range sc.Tuples {
			stored[t.Key()] = true
		}
		for _, t := range g.WideTuples(sc.Model, []int{5, 20, 60}[g.Intn(3)], []int{0, 8, 30}[g.Intn(3)]) {
			if !stored[t.Key()] && sc.Model.ValidForWrite(t) && !sc.Model.AmbiguousCondShape(t) {
				stored[t.Key()] = true
				sc.Tuples = append(sc.Tuples, t)
			}
		}
	}
	if g.Chance(0.12) || gen.Forced("multiparent") {
		// directed shape: several parent types, one read each, in flight at once
		sc.Model, sc.Tuples, sc.Requests = g.MultiParent()
	}
	var rqs []gen.Request
	checks := sc.Requests
	los := g.ListObjectsRequests(sc.Model, 4, [3]float64{0.7, 0.15, 0.15})
	lus := g.ListUsersRequests(sc.Model, 4)
	for i := 0; i < 10; i++ {
		var rq gen.Request
		switch x := g.Intn(100); {
		case x < 30 && len(checks) > 0:
			rq = gen.Pick(g, checks)
			if g.Chance(0.3) {
				// aim at the wide / chained data
				rq.Obj = rm.ObjType(rq.Obj) + ":" + []string{"w0", "c0", "c3"}[g.Intn(3)]
			}
		case x < 50 && len(los) > 0:
			rq = gen.Pick(g, los)
			rq.Streamed = g.Chance(0.5)
		case x < 70 && len(lus) > 0:
			rq = gen.Pick(g, lus)
			if g.Chance(0.3) {
				rq.Obj = rm.ObjType(rq.Obj) + ":" + []string{"w0", "c0", "1"}[g.Intn(3)]
			}
		case x < 80 && len(checks) > 0:
			rq = gen.Pick(g, checks)
			rq.Kind, rq.User, rq.Ctx = "expand", "", nil
		case len(checks) > 0:
			n := 2 + g.Intn(6)
			var items []gen.Request
			for k := 0; k < n; k++ {
				items = append(items, gen.Pick(g, checks))
			}
			rq = gen.Request{Kind: "batch", Items: items}
		default:
			continue
		}
		switch g.Intn(6) {
		case 0:
			rq.CancelAt = 1 + g.Intn(8)
		case 1:
			rq.CancelNs = int64(1+g.Intn(400)) * 1000 // 1 µs .. 400 µs: storage latency is <= 20-60 µs per op
		case 2:
			rq.TimeoutNs = int64(5+g.Intn(500)) * 1000
		}
		if g.Chance(0.2) {
			rq.Conc = 2 + g.Intn(2)
		}
		rqs = append(rqs, rq)
	}
	sc.Requests = rqs
	sc.Knobs["lo_engine"] = int64(g.Intn(4))
	sc.Knobs["v2"] = int64(g.Intn(2))
	sc.Knobs["level"] = 1
	sc.Knobs["lo_limit"] = []int64{0, 0, 1, 3}[g.Intn(4)]
	sc.Knobs["chunk"] = []int64{0, 1, 2}[g.Intn(3)]
	sc.Knobs["bufcap"] = []int64{0, 1, 4}[g.Intn(3)]
	sc.Knobs["numprocs"] = []int64{0, 1, 3}[g.Intn(3)]
	if g.Chance(0.4) {
		sc.Knobs["lo_deadline_us"] = int64(20 + g.Intn(2000))
	}
	if g.Chance(0.4) {
		sc.Knobs["lu_deadline_us"] = int64(20 + g.Intn(2000))
	}
	sc.Knobs["caches"] = int64(g.Intn(2))
	sc.Knobs["shared_iter"] = int64(g.Intn(2))
	sc.Knobs["iter_max"] = []int64{1, 3, 1000}[g.Intn(3)]
	switch g.Intn(4) {
	case 0:
		sc.Knobs["faults"] = int64(simstore.FaultStall)
		sc.Knobs["fault_rate_pm"] = 100
	case 1:
		sc.Knobs["faults"] = int64(simstore.FaultStall | simstore.FaultOpenErr | simstore.FaultIterErr)
		sc.Knobs["fault_rate_pm"] = 60
	}
	sc.Knobs["max_faults"] = 6
	return sc
}

func c20Exec(t *testing.T, sc *gen.Scenario, trace bool) *harness.Outcome {
	return runBubble(t, sc, trace, func(e *Env) {
		opts := loServerOpts(sc)
		if v := sc.Knob("lu_deadline_us", 0); v > 0 {
			opts = append(opts, server.WithListUsersDeadline(time.Duration(v)*time.Microsecond))
		}
		if sc.Knob("caches", 0) == 1 {
			co, _ := cacheOpts(e, sc)
			opts = append(opts, co...)
		}
		if sc.Knob("shared_iter", 0) == 1 {
			opts = append(opts, server.WithSharedIteratorEnabled(true), server.WithSharedIteratorLimit(100))
		}
		s, err := e.NewServer(opts...)
		if err != nil {
			e.Out.Infra = "server: " + err.Error()
			return
		}
		loDeadline, luDeadline := 3*time.Second, 3*time.Second
		if v := sc.Knob("lo_deadline_us", 0); v > 0 {
			loDeadline = time.Duration(v) * time.Microsecond
		}
		if v := sc.Knob("lu_deadline_us", 0); v > 0 {
			luDeadline = time.Duration(v) * time.Microsecond
		}
		type done struct {
			k       int
			el      time.Duration
			bound   time.Duration
			why     string
			errText string
		}
		for i, rq := range sc.Requests {
			n := rq.Conc
			if n < 1 {
				n = 1
			}
			ch := make(chan done, n)
			for k := 0; k < n; k++ {
				k := k
				id := fmt.Sprintf("r%d.%d", i, k)
				e.Run.Go(id, func() {
					timeout := 10 * time.Second
					if rq.TimeoutNs > 0 {
						timeout = time.Duration(rq.TimeoutNs)
					}
					timeout = e.Run.Unique(timeout)
					ctx, cancel := context.WithTimeout(simrt.WithReq(context.Background(), id), timeout)
					defer cancel()
					// bound = earliest instant (relative to the start) at which the call is told to stop
					bound, why := timeout, "client_deadline"
					switch rq.Kind {
					case "listobjects":
						if loDeadline < bound {
							bound, why = loDeadline, "listobjects_deadline"
						}
					case "listusers":
						if luDeadline < bound {
							bound, why = luDeadline, "listusers_deadline"
						}
					}
					t0 := time.Now()
					var cancelledAt time.Duration = -1
					if rq.CancelNs > 0 {
						tm := time.AfterFunc(e.Run.Unique(time.Duration(rq.CancelNs)), func() {
							cancelledAt = time.Since(t0)
							simrt.Probe("cancel_by_timer")
							cancel()
						})
						defer tm.Stop()
					}
					if rq.CancelAt > 0 && k == 0 {
						kth := rq.CancelAt
						e.DS.Hook = func(_ context.Context, op simstore.OpInfo) {
							if op.Req == id && op.N == kth && cancelledAt < 0 {
								cancelledAt = time.Since(t0)
								simrt.Probe("cancel_at_storage_op")
								cancel()
							}
						}
					}
					var err error
					switch rq.Kind {
					case "check":
						_, err = e.SrvCheck(ctx, s, rq)
					case "listobjects":
						_, err = e.SrvListObjects(ctx, s, rq, rq.Streamed)
					case "listusers":
						_, err = e.SrvListUsers(ctx, s, rq)
					case "expand":
						_, err = e.SrvExpand(ctx, s, rq)
					case "batch":
						_, _, err = e.SrvBatchCheck(ctx, s, rq)
					}
					el := time.Since(t0)
					if cancelledAt >= 0 && cancelledAt < bound {
						bound, why = cancelledAt, "client_cancel"
					}
					d := done{k: k, el: el, bound: bound, why: why}
					if err != nil {
						d.errText = errSig(err)
					}
					ch <- d
				})
			}
			for k := 0; k < n; k++ {
				d := <-ch
				e.Out.Evals++
				e.Run.Log("resp", fmt.Sprintf("r%d.%d %s el=%d bound=%d(%s) err=%q", i, d.k, rq.Kind, d.el, d.bound, d.why, d.errText))
				if e.Hung {
					continue
				}
				if d.el >= d.bound {
					simrt.Probe("returned_at_" + d.why)
				}
				if d.el > d.bound+c20Slack && e.Out.Violation == nil {
					e.Violate("late_return", fmt.Sprintf("call=%s bound=%s%s", rq.Kind, d.why, e.lateTags(sc)),
						"%s request %d.%d (%+v) returned %v after it started although its %s was at %v (slack %v); error=%q", rq.Kind, i, d.k, brief(rq), d.el, d.why, d.bound, c20Slack, d.errText)
				}
			}
			e.DS.Hook = nil
			if e.Hung || e.Out.Violation != nil {
				return
			}
		}
		e.Out.NonTrivial = len(sc.Tuples) > 0 && e.Out.Evals > 0
	})
}

func brief(rq gen.Request) string {
	s := fmt.Sprintf("%s %s#%s@%s type=%s filter=%s", rq.Kind, rq.Obj, rq.Rel, rq.User, rq.Type, rq.Filter)
	if len(rq.Items) > 0 {
		s += fmt.Sprintf(" items=%d", len(rq.Items))
	}
	return s
}

func (e *Env) lateTags(sc *gen.Scenario) string {
	var tags []string
	if sc.Knob("caches", 0) == 1 {
		tags = append(tags, "caches")
	}
	if sc.Knob("shared_iter", 0) == 1 {
		tags = append(tags, "shared_iterators")
	}
	if f := e.DS.Fired(); f["stall"] > 0 {
		tags = append(tags, "stall_fired")
	}
	tags = append(tags, "lo_engine="+fmt.Sprint(sc.Knob("lo_engine", 0)), "v2="+fmt.Sprint(sc.Knob("v2", 0)))
	return " " + strings.Join(tags, " ")
}

package hengine

import (
	"context"
	"fmt"
	"sort"
	"strings"
	"testing"
	"time"

	openfgav1 "github.com/openfga/api/proto/openfga/v1"

	"github.com/openfga/openfga/internal/verifsim/gen"
	"github.com/openfga/openfga/internal/verifsim/harness"
	rm "github.com/openfga/openfga/internal/verifsim/refmodel"
	"github.com/openfga/openfga/internal/verifsim/simrt"
	"github.com/openfga/openfga/internal/verifsim/simstore"
	"github.com/openfga/openfga/pkg/server"
	"github.com/openfga/openfga/pkg/storage"
	"github.com/openfga/openfga/pkg/typesystem"
)

// C16: store isolation. 2-3 stores hold the SAME model text (own model ids) and tuples over the
// SAME object, relation and user names but different tuple sets; one Server with every cache layer
// on serves an interleaved history of queries, tuple reads, writes, changelog reads, assertion
// writes/reads, store deletion and store listing.
//
// Oracle: each store has its own reference (tuples now, every earlier tuple state, change history,
// assertions). Uncached reads must equal the store's own reference exactly. A query answer must be
// the reference answer for SOME state the store itself has been in (a cache may legitimately serve
// an older state of the same store) — an answer only another store's data explains is a violation.
// Every storage operation issued for a request must address that request's store (touch log of the
// SimDatastore). A deleted store is gone from GetStore/ListStores.
func c16Gen(runSeed uint64, tier string) *gen.Scenario {
	sc := genEngineScenario(runSeed, tier, 0)
	g := gen.New(runSeed ^ 0xc16)
	nStores := 2 + g.Intn(2)
	sc.Knobs["stores"] = int64(nStores)
	if g.Chance(0.1) {
		sc.Knobs["sqlite"] = 1 // the real SQLite backend instead of the memory backend
	}
	valid := func(ts []rm.Tuple) []rm.Tuple {
		var out []rm.Tuple
		seen := map[string]bool{}
		for _, t := range ts {
			if sc.Model.ValidForWrite(t) && !sc.Model.AmbiguousCondShape(t) && !seen[t.Key()] {
				seen[t.Key()] = true
				out = append(out, t)
			}
		}
		return out
	}
	sc.Tuples = valid(sc.Tuples)
	// stores beyond the first get a variant of the model (two relations of one type exchange their
	// definitions: same names, different meaning) in most runs, so that a model, typesystem or
	// cache entry leaking across stores changes answers
	models := []*rm.Model{sc.Model}
	for s := 1; s < nStores; s++ {
		var v *rm.Model
		if g.Chance(0.7) {
			v = g.SwapVariant(sc.Model)
			if v != nil && !gen.Stratified(v) {
				v = nil
			}
		}
		sc.Models = append(sc.Models, v)
		if v == nil {
			v = sc.Model
		}
		models = append(models, v)
	}
	if g.Chance(0.3) {
		sc.Knobs["same_model_id"] = 1 // every store holds its model under the SAME model id
	}
	validFor := func(m *rm.Model, ts []rm.Tuple) []rm.Tuple {
		var out []rm.Tuple
		seen := map[string]bool{}
		for _, t := range ts {
			if m.ValidForWrite(t) && !m.AmbiguousCondShape(t) && !seen[t.Key()] {
				seen[t.Key()] = true
				out = append(out, t)
			}
		}
		return out
	}
	pools := make([][]rm.Tuple, nStores)
	present := make([]map[string]bool, nStores)
	var ops []gen.Op
	for s := 0; s < nStores; s++ {
		present[s] = map[string]bool{}
		var init []rm.Tuple
		if s == 0 {
			init = sc.Tuples
		} else {
			init = validFor(models[s], g.Tuples(models[s], 4+g.Intn(20), 0))
			ops = append(ops, gen.Op{Kind: "setup", Store: s, Writes: init})
		}
		for _, t := range init {
			present[s][t.Key()] = true
		}
		pools[s] = validFor(models[s], g.Tuples(models[s], 6, 0))
	}
	checks := g.CheckRequests(sc.Model, 6, [3]float64{0.8, 0.1, 0.1})
	los := g.ListObjectsRequests(sc.Model, 3, [3]float64{0.8, 0.1, 0.1})
	lus := g.ListUsersRequests(sc.Model, 3)
	var reqs []gen.Request
	reqs = append(reqs, checks...)
	reqs = append(reqs, los...)
	reqs = append(reqs, lus...)
	if len(reqs) == 0 {
		return sc
	}
	deleted := map[int]bool{}
	alive := func() int {
		for {
			s := g.Intn(nStores)
			if !deleted[s] {
				return s
			}
		}
	}
	n := 14 + g.Intn(14)
	for i := 0; i < n; i++ {
		s := alive()
		switch x := g.Intn(100); {
		case x < 50:
			// the same request to every live store, back to back, in a seed-chosen order: what one
			// store caches is the next store's temptation
			r := gen.Pick(g, reqs)
			var order []string
			for _, s2 := range g.R.Perm(nStores) {
				if !deleted[s2] {
					order = append(order, fmt.Sprint(s2))
				}
			}
			op := gen.Op{Kind: "reqall", Req: &r, S: strings.Join(order, ",")}
			if g.Chance(0.4) {
				op.N = 1 // all at once
			}
			switch x := g.Intn(100); {
			case x < 15:
				op.Model = 1 // every store is asked with the FIRST listed store's model id
			case x < 40:
				op.Model = 2 // no model id: each store must resolve its own latest model
			}
			ops = append(ops, op)
		case x < 65 && len(pools[s]) > 0:
			t := gen.Pick(g, pools[s])
			if present[s][t.Key()] {
				ops = append(ops, gen.Op{Kind: "write", Store: s, Deletes: []rm.Tuple{t}})
				present[s][t.Key()] = false
			} else {
				ops = append(ops, gen.Op{Kind: "write", Store: s, Writes: []rm.Tuple{t}})
				present[s][t.Key()] = true
			}
		case x < 75:
			r := gen.Pick(g, reqs)
			f := gen.Request{Kind: "read"}
			switch g.Intn(3) {
			case 0:
				f.Obj = r.Obj
				if f.Obj == "" {
					f.Obj = r.Type + ":2"
				}
			case 1:
				f.Obj, f.Rel = r.Obj, r.Rel
				if f.Obj == "" {
					f.Obj = r.Type + ":1"
				}
			}
			ops = append(ops, gen.Op{Kind: "read", Store: s, Req: &f})
		case x < 82:
			ops = append(ops, gen.Op{Kind: "changes", Store: s})
		case x < 88:
			if len(checks) > 0 {
				c := gen.Pick(g, checks)
				ops = append(ops, gen.Op{Kind: "assert_w", Store: s, N: 1 + g.Intn(3), S: fmt.Sprintf("v%d", i), Req: &c})
			}
		case x < 94:
			ops = append(ops, gen.Op{Kind: "assert_r", Store: s})
		case x < 97:
			ops = append(ops, gen.Op{Kind: "stores"})
		default:
			live := 0
			for k := 0; k < nStores; k++ {
				if !deleted[k] {
					live++
				}
			}
			if live > 1 && s != 0 {
				ops = append(ops, gen.Op{Kind: "delstore", Store: s}, gen.Op{Kind: "stores"})
				deleted[s] = true
			}
		}
		if g.Chance(0.1) {
			ops = append(ops, gen.Op{Kind: "sleep", Dur: int64(g.Intn(12)) * int64(time.Second)})
		}
	}
	sc.Ops = ops
	sc.Knobs["cache_flags"] = int64(g.Intn(32))
	if g.Chance(0.6) {
		sc.Knobs["cache_flags"] = 31
	}
	sc.Knobs["lo_engine"] = int64(g.Intn(4))
	sc.Knobs["iter_max"] = []int64{2, 1000}[g.Intn(2)]
	sc.Knobs["level"] = 1
	return sc
}

type c16Store struct {
	id, name, modelID string
	model             *rm.Model
	cur               []rm.Tuple
	states            [][]rm.Tuple
	changes           []string // "w key" / "d key" in commit order
	asserts           string
	deleted           bool
}

func tupleStrings(ts []rm.Tuple) []string {
	var out []string
	for _, t := range ts {
		out = append(out, t.String())
	}
	sort.Strings(out)
	return out
}

func c16Exec(t *testing.T, sc *gen.Scenario, trace bool) *harness.Outcome {
	return runBubble(t, sc, trace, func(e *Env) {
		flags := sc.Knob("cache_flags", 0)
		cache := simstore.NewCache(e.Run)
		iterMax := uint32(sc.Knob("iter_max", 1000))
		opts := []server.OpenFGAServiceV1Option{server.WithExperimentals(Experimentals(sc)...), server.WithCheckCache(cache),
			server.WithCheckQueryCacheEnabled(flags&1 != 0), server.WithCheckQueryCacheTTL(time.Minute),
			server.WithCheckIteratorCacheEnabled(flags&2 != 0), server.WithCheckIteratorCacheTTL(time.Minute), server.WithCheckIteratorCacheMaxResults(iterMax),
			server.WithListObjectsIteratorCacheEnabled(flags&4 != 0), server.WithListObjectsIteratorCacheTTL(time.Minute), server.WithListObjectsIteratorCacheMaxResults(iterMax),
			server.WithSharedIteratorEnabled(flags&8 != 0), server.WithSharedIteratorLimit(100),
			server.WithCacheControllerEnabled(flags&16 != 0), server.WithCacheControllerTTL(10 * time.Second)}
		s, err := e.NewServer(opts...)
		if err != nil {
			e.Out.Infra = "server: " + err.Error()
			return
		}
		n := int(sc.Knob("stores", 2))
		stores := make([]*c16Store, n)
		stores[0] = &c16Store{id: e.StoreID, name: "S1", modelID: e.ModelID, model: sc.Model, cur: append([]rm.Tuple(nil), sc.Tuples...)}
		for _, t := range sc.Tuples {
			stores[0].changes = append(stores[0].changes, "w "+t.Key())
		}
		bg := context.Background()
		for k := 1; k < n; k++ {
			id := e.NewULID(200 + k)
			name := fmt.Sprintf("S%d", k+1)
			e.Run.Name(id, name)
			if _, err := e.Mem.CreateStore(bg, &openfgav1.Store{Id: id, Name: "s" + name}); err != nil {
				e.Out.Infra = "create store: " + err.Error()
				return
			}
			rmod := sc.Model
			if k-1 < len(sc.Models) && sc.Models[k-1] != nil {
				if _, err := typesystem.NewAndValidate(bg, sc.Models[k-1].ToProto()); err != nil {
					e.Out.Skip = "invalid_variant_model"
					return
				}
				rmod = sc.Models[k-1]
				simrt.Probe("store_with_variant_model")
			}
			m := rmod.ToProto()
			if sc.Knob("same_model_id", 0) == 1 {
				m.Id = e.ModelID
			} else {
				m.Id = e.NewULID(300 + k)
				e.Run.Name(m.Id, fmt.Sprintf("M%d", k+1))
			}
			if err := e.Mem.WriteAuthorizationModel(bg, id, m); err != nil {
				e.Out.Infra = "write model: " + err.Error()
				return
			}
			stores[k] = &c16Store{id: id, name: name, modelID: m.Id, model: rmod}
		}
		byName := map[string]bool{}
		for _, st := range stores {
			byName[st.name] = true
		}
		judgeAgainst := func(st *c16Store, rq gen.Request, a anyAns, tuples []rm.Tuple) *harness.Violation {
			saved := e.Out.Violation
			e.Out.Violation = nil
			savedModel := sc.Model
			sc.Model = st.model // the judges read the scenario's model for signatures
			defer func() { sc.Model = savedModel }()
			ref := rm.NewState(st.model, append(append([]rm.Tuple(nil), tuples...), rq.CtxTuples...))
			split := func(s string) []string {
				if s == "" {
					return nil
				}
				return strings.Split(s, ",")
			}
			switch rq.Kind {
			case "check":
				e.JudgeCheck(st.name, rq, ref, a.s == "true", nil, false)
			case "listobjects":
				e.JudgeListObjects(st.name, rq, ref, split(a.s), nil, false, 0, false)
			case "listusers":
				e.JudgeListUsers(st.name, rq, ref, split(a.s), nil, false)
			}
			v := e.Out.Violation
			e.Out.Violation = saved
			return v
		}
		for i, op := range sc.Ops {
			var st *c16Store
			if op.Store < len(stores) && op.Kind != "stores" && op.Kind != "sleep" && op.Kind != "reqall" {
				st = stores[op.Store]
			}
			id := fmt.Sprintf("op%d", i)
			ctx, cancel := context.WithTimeout(simrt.WithReq(context.Background(), id), 10*time.Second)
			switch op.Kind {
			case "sleep":
				time.Sleep(time.Duration(op.Dur) + 1)
			case "setup":
				if err := e.WriteTuplesRawTo(st.id, op.Writes); err != nil {
					e.Out.Infra = "setup: " + err.Error()
					cancel()
					return
				}
				st.cur = append(st.cur, op.Writes...)
				for _, t := range op.Writes {
					st.changes = append(st.changes, "w "+t.Key())
				}
			case "write":
				req := &openfgav1.WriteRequest{StoreId: st.id, AuthorizationModelId: st.modelID}
				for _, t := range op.Writes {
					if req.Writes == nil {
						req.Writes = &openfgav1.WriteRequestWrites{}
					}
					req.Writes.TupleKeys = append(req.Writes.TupleKeys, t.TupleKey())
				}
				for _, t := range op.Deletes {
					if req.Deletes == nil {
						req.Deletes = &openfgav1.WriteRequestDeletes{}
					}
					req.Deletes.TupleKeys = append(req.Deletes.TupleKeys, &openfgav1.TupleKeyWithoutCondition{Object: t.Obj, Relation: t.Rel, User: t.User})
				}
				if _, err := s.Write(ctx, req); err != nil {
					e.Violate("unexpected_error:write", "op=write", "op %d: write of %v / delete of %v in %s failed: %v", i, op.Writes, op.Deletes, st.name, err)
					cancel()
					return
				}
				st.states = append(st.states, append([]rm.Tuple(nil), st.cur...))
				st.cur = applyWrite(st.cur, op)
				for _, t := range op.Writes {
					st.changes = append(st.changes, "w "+t.Key())
				}
				for _, t := range op.Deletes {
					st.changes = append(st.changes, "d "+t.Key())
				}
				simrt.Probe("writes")
			case "reqall":
				var targets []*c16Store
				for _, x := range strings.Split(op.S, ",") {
					var k int
					fmt.Sscan(x, &k)
					if k < len(stores) && !stores[k].deleted {
						targets = append(targets, stores[k])
					}
				}
				if len(targets) == 0 {
					break
				}
				type ans struct {
					a     anyAns
					trunc bool
					rid   string
				}
				res := make([]ans, len(targets))
				issueTo := func(k int) {
					tst := targets[k]
					rq := *op.Req
					rq.Store, rq.ModelID = tst.id, tst.modelID
					switch op.Model {
					case 1:
						rq.ModelID = targets[0].modelID
					case 2:
						rq.ModelID = "-"
					}
					rid := fmt.Sprintf("op%d.%s", i, tst.name)
					c2, cancel2 := context.WithTimeout(simrt.WithReq(context.Background(), rid), 10*time.Second)
					a := e.issue(c2, s, tst.id, rq)
					cancel2()
					res[k] = ans{a, e.Truncated, rid}
				}
				if op.N == 1 && len(targets) > 1 {
					done := make(chan struct{}, len(targets))
					for k := range targets {
						k := k
						e.Run.Go(fmt.Sprintf("op%d.c%d", i, k), func() { issueTo(k); done <- struct{}{} })
					}
					for range targets {
						<-done
					}
					simrt.Probe("concurrent_groups")
				} else {
					for k := range targets {
						issueTo(k)
					}
				}
				if e.Hung {
					cancel()
					return
				}
				for k, tst := range targets {
					a := res[k].a
					rq := *op.Req
					e.Out.Evals++
					e.Run.Log("resp", fmt.Sprintf("op%d %s %s %v", i, tst.name, rq.Kind, a))
					for touched, cnt := range e.DS.Touched(res[k].rid) {
						if touched != tst.name && byName[touched] {
							e.Violate("foreign_store_touched", "op=req", "op %d (%s on %s) issued %d storage operations against store %s", i, rq.Kind, tst.name, cnt, touched)
							cancel()
							return
						}
					}
					if op.Model == 1 && tst.modelID != targets[0].modelID {
						// a model id of ANOTHER store: the only admissible outcome is an error
						simrt.Probe("foreign_model_id_requests")
						if !a.err {
							e.Violate("foreign_model_accepted", "kind="+rq.Kind, "op %d: %s in store %s with the model id of store %s was answered (%s) instead of rejected", i, rq.Kind, tst.name, targets[0].name, a.s)
							cancel()
							return
						}
						continue
					}
					if a.err {
						if len(rm.NewState(tst.model, tst.cur).Unevaluable(rq.Ctx)) == 0 {
							simrt.Probe("request_error")
						}
						continue
					}
					trunc := res[k].trunc
					if op.N == 1 && rq.Kind == "listusers" {
						trunc = true // the truncation flag is per Env, not per call: be conservative for concurrent calls
					}
					e.Truncated = trunc
					v := judgeAgainst(tst, rq, a, tst.cur)
					for j := len(tst.states) - 1; j >= 0 && v != nil; j-- {
						e.Truncated = trunc
						if judgeAgainst(tst, rq, a, tst.states[j]) == nil {
							v = nil
							simrt.Probe("answer_from_older_state_of_same_store")
						}
					}
					if v != nil && len(tst.states) > 0 && (rq.Kind == "listobjects" || rq.Kind == "listusers") {
						// A list answer assembled from cached sub-results may mix states of the same store
						// (one branch served from before a write, another computed after it). Element-wise:
						// every returned element must be permitted in SOME state of this store, and every
						// element permitted in ALL of them must be present (ListObjects only).
						if mixedListAnswerOK(sc, tst, rq, a) {
							v = nil
							simrt.Probe("list_answer_mixes_states_of_same_store")
						}
					}
					if v != nil {
						expl := ""
						for _, o := range stores {
							if o != tst {
								e.Truncated = trunc
								o2 := *o
								if judgeAgainst(&o2, rq, a, o.cur) == nil {
									expl = " explained_by_other_store"
								}
							}
						}
						v.Sig += expl
						v.Detail = fmt.Sprintf("op %d in store %s (of %d): ", i, tst.name, n) + v.Detail
						e.Out.Violation = v
						cancel()
						return
					}
				}
			case "read":
				f := op.Req
				var tk *openfgav1.ReadRequestTupleKey
				if f.Obj != "" || f.Rel != "" || f.User != "" {
					tk = &openfgav1.ReadRequestTupleKey{Object: f.Obj, Relation: f.Rel, User: f.User}
				}
				var got []string
				token := ""
				for page := 0; page < 100; page++ {
					resp, err := s.Read(ctx, &openfgav1.ReadRequest{StoreId: st.id, TupleKey: tk, ContinuationToken: token})
					if err != nil {
						e.Violate("unexpected_error:read", "op=read", "op %d: Read(%s, %+v): %v", i, st.name, f, err)
						cancel()
						return
					}
					for _, t := range resp.GetTuples() {
						got = append(got, rm.TupleFromKey(t.GetKey()).String())
					}
					token = resp.GetContinuationToken()
					if token == "" {
						break
					}
				}
				sort.Strings(got)
				var want []rm.Tuple
				for _, t := range st.cur {
					if f.Obj != "" {
						if strings.HasSuffix(f.Obj, ":") {
							if rm.ObjType(t.Obj) != strings.TrimSuffix(f.Obj, ":") {
								continue
							}
						} else if t.Obj != f.Obj {
							continue
						}
					}
					if f.Rel != "" && t.Rel != f.Rel {
						continue
					}
					want = append(want, t)
				}
				e.Out.Evals++
				if w := tupleStrings(want); strings.Join(w, ";") != strings.Join(got, ";") {
					e.Violate("read_differs", "op=read", "op %d: Read(%s, obj=%q rel=%q) returned %v, the store holds %v", i, st.name, f.Obj, f.Rel, got, w)
					cancel()
					return
				}
			case "changes":
				var got []string
				token := ""
				for page := 0; page < 100; page++ {
					resp, err := s.ReadChanges(ctx, &openfgav1.ReadChangesRequest{StoreId: st.id, ContinuationToken: token})
					if err != nil {
						e.Violate("unexpected_error:readchanges", "op=changes", "op %d: ReadChanges(%s): %v", i, st.name, err)
						cancel()
						return
					}
					if len(resp.GetChanges()) == 0 {
						break
					}
					for _, c := range resp.GetChanges() {
						k := "w "
						if c.GetOperation() == openfgav1.TupleOperation_TUPLE_OPERATION_DELETE {
							k = "d "
						}
						got = append(got, k+rm.TupleFromKey(c.GetTupleKey()).Key())
					}
					token = resp.GetContinuationToken()
				}
				e.Out.Evals++
				// the raw setup writes happen in one transaction each (order within it is the
				// backend's business); the server-level history after them is ordered
				a, b := append([]string(nil), got...), append([]string(nil), st.changes...)
				sort.Strings(a)
				sort.Strings(b)
				if strings.Join(a, ";") != strings.Join(b, ";") {
					e.Violate("changes_differ", "op=changes", "op %d: ReadChanges(%s) returned %d entries %v, the store's own history has %d: %v", i, st.name, len(got), got, len(st.changes), st.changes)
					cancel()
					return
				}
			case "assert_w":
				var as []*openfgav1.Assertion
				for k := 0; k < op.N; k++ {
					as = append(as, &openfgav1.Assertion{TupleKey: &openfgav1.AssertionTupleKey{Object: rm.ObjType(op.Req.Obj) + ":" + op.S, Relation: op.Req.Rel, User: fmt.Sprintf("user:%s-%d", st.name, k)}, Expectation: k%2 == 0})
				}
				if _, err := s.WriteAssertions(ctx, &openfgav1.WriteAssertionsRequest{StoreId: st.id, AuthorizationModelId: st.modelID, Assertions: as}); err != nil {
					// assertions are validated against the model; the fixed shape above may not fit it
					simrt.Probe("assertion_write_rejected")
					break
				}
				st.asserts = renderAsserts(as)
				simrt.Probe("assertion_writes")
			case "assert_r":
				resp, err := s.ReadAssertions(ctx, &openfgav1.ReadAssertionsRequest{StoreId: st.id, AuthorizationModelId: st.modelID})
				if err != nil {
					e.Violate("unexpected_error:readassertions", "op=assert_r", "op %d: ReadAssertions(%s): %v", i, st.name, err)
					cancel()
					return
				}
				e.Out.Evals++
				if got := renderAsserts(resp.GetAssertions()); got != st.asserts {
					e.Violate("assertions_differ", "op=assert_r", "op %d: ReadAssertions(%s) returned %q, last written for this store and model: %q", i, st.name, got, st.asserts)
					cancel()
					return
				}
			case "delstore":
				if _, err := s.DeleteStore(ctx, &openfgav1.DeleteStoreRequest{StoreId: st.id}); err != nil {
					e.Violate("unexpected_error:deletestore", "op=delstore", "op %d: DeleteStore(%s): %v", i, st.name, err)
					cancel()
					return
				}
				st.deleted = true
				simrt.Probe("stores_deleted")
			case "stores":
				resp, err := s.ListStores(ctx, &openfgav1.ListStoresRequest{})
				if err != nil {
					e.Violate("unexpected_error:liststores", "op=stores", "op %d: ListStores: %v", i, err)
					cancel()
					return
				}
				listed := map[string]bool{}
				for _, x := range resp.GetStores() {
					listed[x.GetId()] = true
				}
				e.Out.Evals++
				// the id-filtered listing (what the access-control layer asks the datastore for) and the
				// name-filtered one obey the same rule
				var allIDs []string
				for _, o := range stores {
					allIDs = append(allIDs, o.id)
				}
				byID, _, lerr := e.DS.ListStores(ctx, storage.ListStoresOptions{IDs: allIDs, Pagination: storage.PaginationOptions{PageSize: 50}})
				if lerr != nil {
					e.Violate("unexpected_error:liststores", "op=stores ids", "op %d: datastore ListStores with an id filter: %v", i, lerr)
					cancel()
					return
				}
				listedByID := map[string]bool{}
				for _, x := range byID {
					listedByID[x.GetId()] = true
				}
				for _, o := range stores {
					if o.deleted == listedByID[o.id] {
						e.Violate(map[bool]string{true: "deleted_store_visible", false: "live_store_missing"}[o.deleted], "op=stores ids", "op %d: store %s deleted=%v, but listed=%v by the id-filtered datastore listing", i, o.name, o.deleted, listedByID[o.id])
						cancel()
						return
					}
					nresp, nerr := s.ListStores(ctx, &openfgav1.ListStoresRequest{Name: "s" + o.name})
					if o.name == "S1" {
						nresp, nerr = s.ListStores(ctx, &openfgav1.ListStoresRequest{Name: "s1"})
					}
					if nerr == nil && o.deleted == (len(nresp.GetStores()) > 0) {
						e.Violate(map[bool]string{true: "deleted_store_visible", false: "live_store_missing"}[o.deleted], "op=stores name", "op %d: store %s deleted=%v, but the name-filtered listing returned %d stores", i, o.name, o.deleted, len(nresp.GetStores()))
						cancel()
						return
					}
				}
				for _, o := range stores {
					_, gerr := s.GetStore(ctx, &openfgav1.GetStoreRequest{StoreId: o.id})
					if o.deleted && (listed[o.id] || gerr == nil) {
						e.Violate("deleted_store_visible", "op=stores", "op %d: deleted store %s: listed=%v GetStore error=%v", i, o.name, listed[o.id], gerr)
						cancel()
						return
					}
					if !o.deleted && (!listed[o.id] || gerr != nil) {
						e.Violate("live_store_missing", "op=stores", "op %d: live store %s: listed=%v GetStore error=%v", i, o.name, listed[o.id], gerr)
						cancel()
						return
					}
				}
			}
			cancel()
			// touch log: a store-scoped operation may only address its own store
			if st != nil && op.Kind != "setup" && op.Kind != "sleep" {
				for touched, cnt := range e.DS.Touched(id) {
					if touched != st.name && byName[touched] {
						e.Violate("foreign_store_touched", "op="+op.Kind, "op %d (%s on %s) issued %d storage operations against store %s", i, op.Kind, st.name, cnt, touched)
						return
					}
				}
			}
			if e.Out.Violation != nil {
				return
			}
		}
		e.Out.NonTrivial = e.Out.Evals > 0
	})
}

func renderAsserts(as []*openfgav1.Assertion) string {
	var parts []string
	for _, a := range as {
		parts = append(parts, fmt.Sprintf("%s#%s@%s=%v", a.GetTupleKey().GetObject(), a.GetTupleKey().GetRelation(), a.GetTupleKey().GetUser(), a.GetExpectation()))
	}
	return strings.Join(parts, ";")
}


// mixedListAnswerOK: see the call site.
func mixedListAnswerOK(sc *gen.Scenario, st *c16Store, rq gen.Request, a anyAns) bool {
	var got []string
	if a.s != "" {
		got = strings.Split(a.s, ",")
	}
	states := append(append([][]rm.Tuple(nil), st.states...), st.cur)
	switch rq.Kind {
	case "listobjects":
		mayAny := map[string]bool{}
		mustAll := map[string]int{}
		for _, tuples := range states {
			ref := rm.NewState(st.model, append(append([]rm.Tuple(nil), tuples...), rq.CtxTuples...))
			if rm.IsUserset(rq.User) {
				ref.WithExtra(rm.UserObject(rq.User))
			}
			must, may, _, _ := ref.ListObjectsSuper(rq.Type, rq.Rel, rq.User, rq.Ctx)
			for _, o := range may {
				mayAny[o] = true
			}
			for _, o := range must {
				mustAll[o]++
			}
		}
		seen := map[string]bool{}
		for _, o := range got {
			if !mayAny[o] || seen[o] {
				return false
			}
			seen[o] = true
		}
		for o, n := range mustAll {
			if n == len(states) && !seen[o] {
				return false
			}
		}
		return true
	case "listusers":
		// soundness only: each returned concrete user must hold the relation in some state
		for _, u := range got {
			if rm.IsWildcard(u) || rm.IsUserset(u) {
				continue
			}
			ok := false
			for _, tuples := range states {
				ref := rm.NewState(st.model, append(append([]rm.Tuple(nil), tuples...), rq.CtxTuples...))
				if sup := ref.CheckSuper(rq.Obj, rq.Rel, u, rq.Ctx); sup.CanBeTrue {
					ok = true
					break
				}
			}
			if !ok {
				return false
			}
		}
		return true
	}
	return false
}

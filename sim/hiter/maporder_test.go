package hiter

import (
	"fmt"
	"runtime"
	"testing"
)

// TestMapOrder is a determinism probe: with the runtime overlay, iteration order of string- and
// pointer-keyed maps must be identical across processes for the same seed.
func TestMapOrder(t *testing.T) {
	runtime.SimSetSeed(42, true)
	defer runtime.SimSetSeed(0, false)
	m := map[string]int{}
	for i := 0; i < 12; i++ {
		m[fmt.Sprintf("folder#rel%d", i)] = i
	}
	s := ""
	for k := range m {
		s += k[10:] + ","
	}
	type node struct{ x int }
	pm := map[*node]int{}
	for i := 0; i < 12; i++ {
		pm[&node{i}] = i
	}
	p := ""
	for _, v := range pm {
		p += fmt.Sprint(v) + ","
	}
	var first *node
	for k, v := range pm {
		if v == 0 {
			first = k
		}
	}
	fmt.Printf("MAPORDER str %s ptr %s addr0=%p\n", s, p, first)
}

// Package hiter hosts C23: iterator adapters and shared iterators. The shared-iterator source is
// compiled from an instrumented copy (every atomic/lock/channel operation is a scheduling point).
package hiter

import (
	"context"
	"errors"
	"fmt"
	"sort"
	"strings"
	"sync"
	"testing"
	"time"

	openfgav1 "github.com/openfga/api/proto/openfga/v1"

	"github.com/openfga/openfga/internal/iterator"
	"github.com/openfga/openfga/internal/verifsim/gen"
	"github.com/openfga/openfga/internal/verifsim/harness"
	"github.com/openfga/openfga/internal/verifsim/simrt"
	"github.com/openfga/openfga/pkg/storage"
	"github.com/openfga/openfga/pkg/storage/storagewrappers/sharediterator"
	"github.com/openfga/openfga/pkg/tuple"
)

func Props() []*harness.Prop {
	return []*harness.Prop{{ID: "C23", Gen: c23Gen, Exec: c23Exec}}
}

var errInjected = errors.New("sim: injected iterator error")

// src is the simulated input iterator: a fixed sequence, an optional error at a position, virtual
// latency per step, context awareness, and bookkeeping (stops, use after stop).
type src[T any] struct {
	mu       sync.Mutex
	name     string
	items    []T
	pos      int
	failAt   int // fail when pos == failAt (0-based); -1 never
	lat      time.Duration
	ordered  bool
	stops    int
	afterUse int
	onNext   func(pos int)
}

func (s *src[T]) step(ctx context.Context, advance bool) (T, error) {
	var zero T
	if s.lat > 0 {
		if r := simrt.Cur(); r != nil {
			if err := r.SleepUnique(ctx, s.lat); err != nil {
				return zero, err
			}
		}
	}
	if err := ctx.Err(); err != nil {
		return zero, err
	}
	s.mu.Lock()
	defer s.mu.Unlock()
	if s.stops > 0 {
		s.afterUse++
		return zero, storage.ErrIteratorDone
	}
	if s.failAt >= 0 && s.pos >= s.failAt {
		return zero, errInjected
	}
	if s.pos >= len(s.items) {
		return zero, storage.ErrIteratorDone
	}
	v := s.items[s.pos]
	if advance {
		if s.onNext != nil {
			s.onNext(s.pos)
		}
		s.pos++
	}
	return v, nil
}

func (s *src[T]) Next(ctx context.Context) (T, error) { return s.step(ctx, true) }
func (s *src[T]) Head(ctx context.Context) (T, error) { return s.step(ctx, false) }
func (s *src[T]) Stop()                               { s.mu.Lock(); s.stops++; s.mu.Unlock() }
func (s *src[T]) IsOrdered() bool                     { return s.ordered }

// ---------------------------------------------------------------- scenario

func c23Gen(runSeed uint64, tier string) *gen.Scenario {
	g := gen.New(runSeed ^ 0xc23)
	sc := &gen.Scenario{Version: 1, Harness: "hiter", Knobs: map[string]int64{}}
	k := sc.Knobs
	k["part"] = int64(g.Intn(2)) // 0 adapters, 1 shared iterators
	k["adapter"] = int64(g.Intn(9))
	k["n1"] = int64(g.Intn(9))
	k["n2"] = int64(g.Intn(9))
	k["n3"] = int64(g.Intn(5))
	k["universe"] = int64(3 + g.Intn(10))
	k["fail_src"] = int64(g.Intn(4))  // 0 = no failure, else which source
	k["fail_pos"] = int64(g.Intn(8))
	k["head_pm"] = int64(g.Intn(600)) // how often the reader peeks with Head before Next
	k["cancel_at"] = int64(-1)
	if g.Chance(0.15) {
		k["cancel_at"] = int64(g.Intn(8))
	}
	k["pred"] = int64(g.Intn(4))
	k["seq_seed"] = int64(g.Intn(1 << 30))
	// shared iterators
	k["consumers"] = int64(2 + g.Intn(4))
	k["items"] = int64([]int{0, 1, 5, 40, 99, 100, 101, 250}[g.Intn(8)])
	k["src_lat_ns"] = []int64{0, 500, 20000, 20000}[g.Intn(4)]
	k["admission_us"] = []int64{1, 200, 100000}[g.Intn(3)]
	k["idle_us"] = []int64{1, 50, 100000}[g.Intn(3)]
	k["limit"] = []int64{100, 100, 1}[g.Intn(3)]
	k["method"] = int64(g.Intn(3))
	for c := 0; c < 6; c++ {
		k[fmt.Sprintf("c%d_start_us", c)] = int64(g.Intn(4)) * int64(g.Intn(300))
		k[fmt.Sprintf("c%d_cancel_at", c)] = -1
		k[fmt.Sprintf("c%d_stop_at", c)] = -1
		switch g.Intn(5) {
		case 0:
			k[fmt.Sprintf("c%d_cancel_at", c)] = int64(g.Intn(120))
		case 1:
			k[fmt.Sprintf("c%d_stop_at", c)] = int64(g.Intn(120))
		}
		k[fmt.Sprintf("c%d_head_pm", c)] = int64(g.Intn(500))
		k[fmt.Sprintf("c%d_cancel_ns", c)] = 0
		if g.Chance(0.25) {
			// cancellation by the clock: lands wherever the consumer happens to be, e.g. inside a batch fetch
			k[fmt.Sprintf("c%d_cancel_ns", c)] = int64(1 + g.Intn(3000000))
		}
	}
	k["delay_mode"] = int64(g.Intn(simrt.NumModes))
	k["max_yield_ns"] = []int64{200, 2000, 20000}[g.Intn(3)]
	return sc
}

type outcome struct {
	got []string
	err error
}

// drain reads it to the end with a seed-chosen mix of Head and Next, checking Head/Next consistency.
func drain[T any](ctx context.Context, run *simrt.Run, who string, it storage.Iterator[T], key func(T) string, headPm int64, cancelAt int, cancel func(), stopAt int, violate func(string, string, string, ...any)) outcome {
	var o outcome
	for i := 0; ; i++ {
		if cancelAt >= 0 && i == cancelAt {
			cancel()
		}
		if stopAt >= 0 && i == stopAt {
			it.Stop()
			o.err = errStoppedEarly
			return o
		}
		var peek string
		peeked := false
		if run.Chance(float64(headPm)/1000, "head", who, i) {
			h, err := it.Head(ctx)
			if err == nil {
				peek, peeked = key(h), true
				// consecutive Heads agree
				if h2, err2 := it.Head(ctx); err2 == nil && key(h2) != peek {
					violate("head_not_stable", who, "%s: two consecutive Head calls returned %s then %s", who, peek, key(h2))
				}
			} else if !strings.Contains(err.Error(), "not supported") {
				o.err = err
				return o
			}
		}
		v, err := it.Next(ctx)
		if err != nil {
			o.err = err
			run.Log("end", who+" "+err.Error())
			return o
		}
		if peeked && key(v) != peek {
			violate("head_next_disagree", who, "%s: Head returned %s but the following Next returned %s", who, peek, key(v))
		}
		o.got = append(o.got, key(v))
		run.Log("item", who+" "+key(v))
		if len(o.got) > 5000 {
			violate("unbounded_output", who, "%s: more than 5000 items", who)
			return o
		}
	}
}

var errStoppedEarly = errors.New("stopped early by the reader")

func tk(obj, user string) *openfgav1.Tuple {
	return &openfgav1.Tuple{Key: tuple.NewTupleKey(obj, "viewer", user)}
}

func c23Exec(t *testing.T, sc *gen.Scenario, trace bool) *harness.Outcome {
	out := &harness.Outcome{}
	violate := func(class, sig, format string, a ...any) {
		if out.Violation == nil {
			out.Violation = &harness.Violation{Class: class, Sig: sig, Detail: fmt.Sprintf(format, a...)}
		}
	}
	msg := harness.Bubble(t, func(t *testing.T) {
		run := simrt.Begin(simrt.Config{Seed: sc.RunSeed, Mode: int(sc.Knob("delay_mode", 0)), Trace: trace, MaxYield: sc.Knob("max_yield_ns", 2000)})
		defer simrt.End()
		if sc.Knob("part", 0) == 0 {
			out.Shape = fmt.Sprintf("adapter%d", sc.Knob("adapter", 0))
			adapters(sc, run, out, violate)
		} else {
			out.Shape = fmt.Sprintf("shared m%d c%d n%d", sc.Knob("method", 0), sc.Knob("consumers", 2), sc.Knob("items", 0))
			shared(sc, run, out, violate)
		}
		out.Digest = run.Digest()
		out.Events = run.NumEvents()
		out.Yields = run.NumYields()
		out.SimTimeNs = int64(run.Elapsed())
		out.Probes = run.Probes()
		if trace {
			out.Trace = run.Events()
		}
	})
	if msg != "" && out.Violation == nil {
		if strings.Contains(msg, "deadlock") {
			out.Violation = &harness.Violation{Class: "hang", Sig: out.Shape, Detail: "goroutines left blocked at the end of the run: " + msg}
		} else {
			out.Infra = "bubble: " + msg
		}
	}
	return out
}

// ---------------------------------------------------------------- part A: adapters

// sortedSubset returns a strictly increasing sequence of n ids out of the universe.
func sortedSubset(run *simrt.Run, tag string, n, universe int) []string {
	set := map[int]bool{}
	for i := 0; len(set) < n && i < 4*n+4; i++ {
		set[run.Pick(universe, "subset", tag, i)] = true
	}
	var ids []int
	for k := range set {
		ids = append(ids, k)
	}
	sort.Ints(ids)
	var out []string
	for _, k := range ids {
		out = append(out, fmt.Sprintf("doc:%02d", k))
	}
	return out
}

func anySeq(run *simrt.Run, tag string, n, universe int) []string {
	var out []string
	for i := 0; i < n; i++ {
		out = append(out, fmt.Sprintf("doc:%02d", run.Pick(universe, "seq", tag, i)))
	}
	return out
}

func adapters(sc *gen.Scenario, run *simrt.Run, out *harness.Outcome, violate func(string, string, string, ...any)) {
	u := int(sc.Knob("universe", 5))
	n := []int{int(sc.Knob("n1", 0)), int(sc.Knob("n2", 0)), int(sc.Knob("n3", 0))}
	failSrc, failPos := int(sc.Knob("fail_src", 0)), int(sc.Knob("fail_pos", 0))
	fa := func(i int) int {
		if failSrc == i+1 {
			return failPos
		}
		return -1
	}
	ctx, cancel := context.WithCancel(context.Background())
	defer cancel()
	cancelAt := int(sc.Knob("cancel_at", -1))
	headPm := sc.Knob("head_pm", 0)
	pred := func(s string) bool {
		var k int
		fmt.Sscanf(s, "doc:%d", &k)
		switch sc.Knob("pred", 0) {
		case 0:
			return k%2 == 0
		case 1:
			return k%3 != 0
		case 2:
			return true
		}
		return false
	}
	adapter := int(sc.Knob("adapter", 0))
	who := fmt.Sprintf("adapter=%d", adapter)
	var got outcome
	var want []string
	var srcsT []*src[*openfgav1.Tuple]
	var srcsS []*src[string]
	var srcsK []*src[*openfgav1.TupleKey]
	exactOnError := false
	injected := false
	strKey := func(s string) string { return s }
	tupKey := func(t *openfgav1.Tuple) string { return t.GetKey().GetObject() }
	tkKey := func(t *openfgav1.TupleKey) string { return t.GetObject() }
	mkS := func(i int, items []string, ordered bool) *src[string] {
		s := &src[string]{name: fmt.Sprint(i), items: items, failAt: fa(i), ordered: ordered}
		srcsS = append(srcsS, s)
		return s
	}
	mkT := func(i int, items []string, ordered bool) *src[*openfgav1.Tuple] {
		s := &src[*openfgav1.Tuple]{name: fmt.Sprint(i), failAt: fa(i), ordered: ordered}
		for _, o := range items {
			s.items = append(s.items, tk(o, fmt.Sprintf("user:s%d", i)))
		}
		srcsT = append(srcsT, s)
		return s
	}
	mkK := func(i int, items []string) *src[*openfgav1.TupleKey] {
		s := &src[*openfgav1.TupleKey]{name: fmt.Sprint(i), failAt: fa(i)}
		for _, o := range items {
			s.items = append(s.items, tuple.NewTupleKey(o, "viewer", "user:a"))
		}
		srcsK = append(srcsK, s)
		return s
	}
	cut := func(i int, items []string) []string { // what source i can deliver before its injected failure
		if f := fa(i); f >= 0 && f < len(items) {
			injected = true
			return items[:f]
		} else if f >= 0 {
			injected = true // fails at the end instead of Done
		}
		return items
	}
	_ = cut
	switch adapter {
	case 0: // storage.NewCombinedIterator: concatenation
		a, b, c := anySeq(run, "a", n[0], u), anySeq(run, "b", n[1], u), anySeq(run, "c", n[2], u)
		it := storage.NewCombinedIterator[*openfgav1.Tuple](mkT(0, a, false), mkT(1, b, false), mkT(2, c, false))
		want = append(append(append([]string{}, a...), b...), c...)
		got = drain[*openfgav1.Tuple](ctx, run, who, it, tupKey, headPm, cancelAt, cancel, -1, violate)
		it.Stop()
	case 1: // iterator.Concat
		a, b := anySeq(run, "a", n[0], u), anySeq(run, "b", n[1], u)
		it := iterator.Concat[string](mkS(0, a, false), mkS(1, b, false))
		want = append(append([]string{}, a...), b...)
		got = drain[string](ctx, run, who, it, strKey, headPm, cancelAt, cancel, -1, violate)
		it.Stop()
	case 2: // iterator.Merge: sorted union without duplicates
		a, b := sortedSubset(run, "a", n[0], u), sortedSubset(run, "b", n[1], u)
		it := iterator.Merge[string](mkS(0, a, true), mkS(1, b, true), strings.Compare)
		want = unionSorted(a, b)
		got = drain[string](ctx, run, who, it, strKey, 0, cancelAt, cancel, -1, violate)
		it.Stop()
	case 3: // storage.NewFilteredTupleKeyIterator
		a := anySeq(run, "a", n[0]+n[1], u)
		it := storage.NewFilteredTupleKeyIterator(mkK(0, a), func(k *openfgav1.TupleKey) bool { return pred(k.GetObject()) })
		want = filterStr(a, pred)
		got = drain[*openfgav1.TupleKey](ctx, run, who, it, tkKey, headPm, cancelAt, cancel, -1, violate)
		it.Stop()
	case 4: // iterator.NewFilteredIterator with two filters (conjunction)
		a := anySeq(run, "a", n[0]+n[1], u)
		f2 := func(s string) bool { return s != "doc:01" }
		it := iterator.NewFilteredIterator[string](mkS(0, a, false), func(s string) (bool, error) { return pred(s), nil }, func(s string) (bool, error) { return f2(s), nil })
		want = filterStr(a, func(s string) bool { return pred(s) && f2(s) })
		got = drain[string](ctx, run, who, it, strKey, 0, cancelAt, cancel, -1, violate)
		it.Stop()
	case 5: // iterator.Validate: invalid items are skipped, a validator error ends the sequence
		a := anySeq(run, "a", n[0]+n[1], u)
		bad := fmt.Sprintf("doc:%02d", sc.Knob("fail_pos", 0))
		validatorFails := sc.Knob("fail_src", 0) == 2
		it := iterator.Validate[string](mkS(0, a, false), func(s string) (bool, error) {
			if validatorFails && s == bad {
				return false, errInjected
			}
			return pred(s), nil
		})
		for _, s := range a {
			if validatorFails && s == bad {
				injected = true
				break
			}
			if pred(s) {
				want = append(want, s)
			}
		}
		got = drain[string](ctx, run, who, it, strKey, headPm, cancelAt, cancel, -1, violate)
		it.Stop()
		if validatorFails && injected {
			exactOnError = true // everything valid before the bad item must have been delivered
		}
	case 6: // iterator.SkipTo
		a := sortedSubset(run, "a", n[0]+n[1], u)
		target := fmt.Sprintf("doc:%02d", sc.Knob("fail_pos", 0))
		s := mkS(0, a, true)
		err := iterator.SkipTo(ctx, s, target)
		for _, x := range a {
			if x >= target {
				want = append(want, x)
			}
		}
		if err != nil {
			got = outcome{err: err}
		} else {
			got = drain[string](ctx, run, who, s, strKey, headPm, cancelAt, cancel, -1, violate)
		}
		s.Stop()
	case 7: // storage.NewOrderedCombinedIterator: ordered union, one tuple per mapped key
		a, b, c := sortedSubset(run, "a", n[0], u), sortedSubset(run, "b", n[1], u), sortedSubset(run, "c", n[2], u)
		it := storage.NewOrderedCombinedIterator(storage.ObjectMapper(), mkT(0, a, true), mkT(1, b, true), mkT(2, c, true))
		want = unionSorted(unionSorted(a, b), c)
		got = drain[*openfgav1.Tuple](ctx, run, who, it, tupKey, headPm, cancelAt, cancel, -1, violate)
		it.Stop()
	case 8: // storage.NewConditionsFilteredTupleKeyIterator: condition errors surface only when nothing was valid
		a := anySeq(run, "a", n[0]+n[1], u)
		bad := fmt.Sprintf("doc:%02d", sc.Knob("fail_pos", 0))
		condFails := sc.Knob("fail_src", 0) == 2
		it := storage.NewConditionsFilteredTupleKeyIterator(mkK(0, a), func(k *openfgav1.TupleKey) (bool, error) {
			if condFails && k.GetObject() == bad {
				return false, errInjected
			}
			return pred(k.GetObject()), nil
		})
		sawBad := false
		for _, s := range a {
			if condFails && s == bad {
				sawBad = true
				continue
			}
			if pred(s) {
				want = append(want, s)
			}
		}
		got = drain[*openfgav1.TupleKey](ctx, run, who, it, tkKey, headPm, cancelAt, cancel, -1, violate)
		it.Stop()
		if sawBad && len(want) == 0 && fa(0) < 0 && cancelAt < 0 {
			// documented behaviour: the deferred condition error instead of "done"
			if !errors.Is(got.err, errInjected) {
				violate("condition_error_lost", who, "%s: no item passed the filter and one filter call failed, but the iterator ended with %v", who, got.err)
			}
			got.err = storage.ErrIteratorDone
		}
	}
	out.Evals++
	out.NonTrivial = len(want) > 0
	srcFailed := injected
	for i := 0; i < 3; i++ {
		if fa(i) >= 0 {
			srcFailed = true
		}
	}
	cancelled := cancelAt >= 0 && ctx.Err() != nil
	sig := who
	desc := fmt.Sprintf("%s: got %v then %v; specified sequence %v (source failure=%v, cancelled=%v)", who, got.got, got.err, want, srcFailed, cancelled)
	switch {
	case errors.Is(got.err, storage.ErrIteratorDone):
		if strings.Join(got.got, ",") != strings.Join(want, ",") {
			if srcFailed && isPrefix(got.got, want) {
				violate("error_reported_as_done", sig, "%s", desc)
			} else if !srcFailed {
				violate("wrong_sequence", sig, "%s", desc)
			} else {
				violate("wrong_sequence_under_error", sig, "%s", desc)
			}
		}
	case got.err != nil:
		if !srcFailed && !cancelled {
			violate("unexpected_error", sig, "%s", desc)
		} else if !isPrefix(got.got, want) {
			violate("wrong_prefix_before_error", sig, "%s", desc)
		} else if exactOnError && !cancelled && fa(0) < 0 && strings.Join(got.got, ",") != strings.Join(want, ",") {
			violate("items_lost_before_error", sig, "%s", desc)
		}
		simrt.Probe("ended_with_error")
	}
	for _, s := range srcsT {
		checkStops(s.name, s.stops, violate, who)
	}
	for _, s := range srcsS {
		checkStops(s.name, s.stops, violate, who)
	}
	for _, s := range srcsK {
		checkStops(s.name, s.stops, violate, who)
	}
}

func checkStops(name string, stops int, violate func(string, string, string, ...any), who string) {
	if stops == 0 {
		violate("source_not_stopped", who, "%s: source %s was never stopped although the adapter was stopped", who, name)
	}
}

func isPrefix(p, full []string) bool {
	if len(p) > len(full) {
		return false
	}
	for i := range p {
		if p[i] != full[i] {
			return false
		}
	}
	return true
}

func filterStr(xs []string, f func(string) bool) []string {
	var out []string
	for _, x := range xs {
		if f(x) {
			out = append(out, x)
		}
	}
	return out
}

func unionSorted(a, b []string) []string {
	set := map[string]bool{}
	for _, x := range a {
		set[x] = true
	}
	for _, x := range b {
		set[x] = true
	}
	var out []string
	for x := range set {
		out = append(out, x)
	}
	sort.Strings(out)
	return out
}

// ---------------------------------------------------------------- part B: shared iterators

type stubReader struct {
	storage.RelationshipTupleReader
	mu     sync.Mutex
	mk     func() *src[*openfgav1.Tuple]
	opened []*src[*openfgav1.Tuple]
	openLat time.Duration
}

func (r *stubReader) open(ctx context.Context) (storage.TupleIterator, error) {
	if r.openLat > 0 {
		if err := simrt.Cur().SleepUnique(ctx, r.openLat); err != nil {
			return nil, err
		}
	}
	s := r.mk()
	r.mu.Lock()
	r.opened = append(r.opened, s)
	r.mu.Unlock()
	simrt.Probe("underlying_reads")
	return s, nil
}

func (r *stubReader) ReadStartingWithUser(ctx context.Context, store string, f storage.ReadStartingWithUserFilter, o storage.ReadStartingWithUserOptions) (storage.TupleIterator, error) {
	return r.open(ctx)
}
func (r *stubReader) ReadUsersetTuples(ctx context.Context, store string, f storage.ReadUsersetTuplesFilter, o storage.ReadUsersetTuplesOptions) (storage.TupleIterator, error) {
	return r.open(ctx)
}
func (r *stubReader) Read(ctx context.Context, store string, f storage.ReadFilter, o storage.ReadOptions) (storage.TupleIterator, error) {
	return r.open(ctx)
}

func shared(sc *gen.Scenario, run *simrt.Run, out *harness.Outcome, violate func(string, string, string, ...any)) {
	nItems := int(sc.Knob("items", 0))
	var full []string
	for i := 0; i < nItems; i++ {
		full = append(full, fmt.Sprintf("doc:%03d", i))
	}
	failAt := -1
	if sc.Knob("fail_src", 0) == 1 {
		failAt = int(sc.Knob("fail_pos", 0)) * 17 % (nItems + 1)
	}
	lat := time.Duration(sc.Knob("src_lat_ns", 0))
	rd := &stubReader{openLat: lat}
	rd.mk = func() *src[*openfgav1.Tuple] {
		s := &src[*openfgav1.Tuple]{name: "underlying", failAt: failAt, lat: lat, ordered: true}
		for _, o := range full {
			s.items = append(s.items, tk(o, "user:a"))
		}
		return s
	}
	st := sharediterator.NewSharedIteratorDatastoreStorage(sharediterator.WithSharedIteratorDatastoreStorageLimit(int(sc.Knob("limit", 100))))
	ds := sharediterator.NewSharedIteratorDatastore(rd, st,
		sharediterator.WithMaxAdmissionTime(time.Duration(sc.Knob("admission_us", 1))*time.Microsecond),
		sharediterator.WithMaxIdleTime(time.Duration(sc.Knob("idle_us", 1))*time.Microsecond))
	nc := int(sc.Knob("consumers", 2))
	type res struct {
		o         outcome
		cancelled bool
		stopped   bool
		openErr   error
	}
	results := make([]res, nc)
	var wg sync.WaitGroup
	method := sc.Knob("method", 0)
	for c := 0; c < nc; c++ {
		c := c
		wg.Add(1)
		run.Go(fmt.Sprintf("consumer%d", c), func() {
			defer wg.Done()
			time.Sleep(time.Duration(sc.Knob(fmt.Sprintf("c%d_start_us", c), 0))*time.Microsecond + 1)
			ctx, cancel := context.WithCancel(simrt.WithReq(context.Background(), fmt.Sprintf("c%d", c)))
			defer cancel()
			var it storage.TupleIterator
			var err error
			switch method {
			case 0:
				it, err = ds.ReadStartingWithUser(ctx, "S", storage.ReadStartingWithUserFilter{ObjectType: "doc", Relation: "viewer", UserFilter: []*openfgav1.ObjectRelation{{Object: "user:a"}}}, storage.ReadStartingWithUserOptions{})
			case 1:
				it, err = ds.ReadUsersetTuples(ctx, "S", storage.ReadUsersetTuplesFilter{Object: "doc:1", Relation: "viewer"}, storage.ReadUsersetTuplesOptions{})
			default:
				it, err = ds.Read(ctx, "S", storage.ReadFilter{Object: "doc:", Relation: "viewer"}, storage.ReadOptions{})
			}
			if err != nil {
				results[c].openErr = err
				return
			}
			timedOut := false
			if d := sc.Knob(fmt.Sprintf("c%d_cancel_ns", c), 0); d > 0 {
				tm := time.AfterFunc(time.Duration(d), func() { timedOut = true; cancel() })
				defer tm.Stop()
			}
			cancelAt, stopAt := int(sc.Knob(fmt.Sprintf("c%d_cancel_at", c), -1)), int(sc.Knob(fmt.Sprintf("c%d_stop_at", c), -1))
			who := fmt.Sprintf("consumer%d", c)
			o := drain[*openfgav1.Tuple](ctx, run, who, it, func(t *openfgav1.Tuple) string { return t.GetKey().GetObject() }, sc.Knob(fmt.Sprintf("c%d_head_pm", c), 0), cancelAt, cancel, stopAt, violate)
			it.Stop()
			results[c] = res{o: o, cancelled: (timedOut || (cancelAt >= 0 && cancelAt <= len(o.got))) && ctx.Err() != nil, stopped: errors.Is(o.err, errStoppedEarly)}
		})
	}
	done := make(chan struct{})
	go func() { wg.Wait(); close(done) }()
	select {
	case <-done:
	case <-time.After(60 * time.Second):
		violate("hang", "shared", "consumers of the shared iterator did not finish within 60 s of virtual time")
		return
	}
	for c := 0; c < nc; c++ {
		r := results[c]
		out.Evals++
		who := fmt.Sprintf("consumer%d", c)
		desc := fmt.Sprintf("%s (of %d; method %d; %d items; underlying failure at %d; cancelled=%v stopped=%v): read %d items then %v", who, nc, method, nItems, failAt, r.cancelled, r.stopped, len(r.o.got), r.o.err)
		if r.openErr != nil {
			if failAt < 0 {
				violate("unexpected_error", "shared open", "%s: open failed: %v", who, r.openErr)
			}
			continue
		}
		if !isPrefix(r.o.got, full) {
			violate("wrong_sequence", "shared", "%s: not a prefix of the underlying sequence: %v", desc, r.o.got)
			continue
		}
		switch {
		case r.stopped:
		case errors.Is(r.o.err, storage.ErrIteratorDone):
			limit := len(full)
			if failAt >= 0 && failAt < limit {
				violate("error_reported_as_done", "shared", "%s", desc)
			} else if len(r.o.got) != limit {
				violate("incomplete_sequence", "shared", "%s", desc)
			}
		case r.cancelled:
			simrt.Probe("consumer_cancelled")
		default:
			// an error for a consumer nobody cancelled: only the underlying failure justifies it
			if failAt < 0 || !errors.Is(r.o.err, errInjected) {
				tag := "shared"
				if errors.Is(r.o.err, context.Canceled) {
					tag = "shared foreign_cancellation"
				}
				violate("unexpected_error", tag, "%s", desc)
			} else if len(r.o.got) > failAt {
				violate("wrong_sequence", "shared", "%s", desc)
			}
		}
	}
	out.NonTrivial = nItems > 0
	// every underlying iterator is eventually stopped (after idle/admission timers)
	time.Sleep(2 * time.Second)
	rd.mu.Lock()
	for i, s := range rd.opened {
		s.mu.Lock()
		if s.stops == 0 {
			violate("underlying_iterator_leak", "shared", "underlying iterator %d of %d was never stopped (2 s virtual after the last consumer finished)", i, len(rd.opened))
		}
		s.mu.Unlock()
	}
	rd.mu.Unlock()
}

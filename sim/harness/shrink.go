package harness

import (
	"encoding/json"
	"sort"

	"github.com/openfga/openfga/internal/verifsim/gen"
	rm "github.com/openfga/openfga/internal/verifsim/refmodel"
)

// Clone deep-copies a scenario through JSON (also normalises value types exactly as a replay file does).
func Clone(sc *gen.Scenario) *gen.Scenario {
	b, _ := json.Marshal(sc)
	var out gen.Scenario
	_ = json.Unmarshal(b, &out)
	return &out
}

// GenericShrink proposes simpler scenarios, most aggressive first. The caller keeps a candidate
// only if it still produces the same violation class.
func GenericShrink(sc *gen.Scenario) []*gen.Scenario {
	var out []*gen.Scenario
	add := func(f func(c *gen.Scenario) bool) {
		c := Clone(sc)
		if f(c) {
			out = append(out, c)
		}
	}
	// requests: keep only one
	if len(sc.Requests) > 1 {
		for i := range sc.Requests {
			i := i
			add(func(c *gen.Scenario) bool { c.Requests = []gen.Request{c.Requests[i]}; return true })
		}
		// or drop halves
		h := len(sc.Requests) / 2
		add(func(c *gen.Scenario) bool { c.Requests = c.Requests[:h]; return true })
		add(func(c *gen.Scenario) bool { c.Requests = c.Requests[h:]; return true })
	}
	// ops: drop halves, then singles
	if n := len(sc.Ops); n > 1 {
		h := n / 2
		add(func(c *gen.Scenario) bool { c.Ops = c.Ops[:h]; return true })
		add(func(c *gen.Scenario) bool { c.Ops = c.Ops[h:]; return true })
		for i := n - 1; i >= 0; i-- {
			i := i
			add(func(c *gen.Scenario) bool { c.Ops = append(c.Ops[:i:i], c.Ops[i+1:]...); return true })
		}
	}
	// tuples: halves, quarters, singles
	if n := len(sc.Tuples); n > 0 {
		if n > 3 {
			h := n / 2
			add(func(c *gen.Scenario) bool { c.Tuples = c.Tuples[:h]; return true })
			add(func(c *gen.Scenario) bool { c.Tuples = c.Tuples[h:]; return true })
			q := n / 4
			if q > 0 {
				for s := 0; s+q <= n; s += q {
					s := s
					add(func(c *gen.Scenario) bool { c.Tuples = append(c.Tuples[:s:s], c.Tuples[s+q:]...); return true })
				}
			}
		}
		for i := n - 1; i >= 0; i-- {
			i := i
			add(func(c *gen.Scenario) bool { c.Tuples = append(c.Tuples[:i:i], c.Tuples[i+1:]...); return true })
		}
	}
	// per request simplifications
	for i := range sc.Requests {
		i := i
		r := sc.Requests[i]
		if len(r.CtxTuples) > 0 {
			for j := range r.CtxTuples {
				j := j
				add(func(c *gen.Scenario) bool {
					ct := c.Requests[i].CtxTuples
					c.Requests[i].CtxTuples = append(ct[:j:j], ct[j+1:]...)
					return true
				})
			}
		}
		if len(r.Ctx) > 0 {
			ks := make([]string, 0, len(r.Ctx))
			for k := range r.Ctx {
				ks = append(ks, k)
			}
			sort.Strings(ks)
			for _, k := range ks {
				k := k
				add(func(c *gen.Scenario) bool { delete(c.Requests[i].Ctx, k); return true })
			}
		}
		if r.Conc > 1 {
			add(func(c *gen.Scenario) bool { c.Requests[i].Conc = 1; return true })
		}
		if len(r.Items) > 1 {
			for j := range r.Items {
				j := j
				add(func(c *gen.Scenario) bool {
					it := c.Requests[i].Items
					c.Requests[i].Items = append(it[:j:j], it[j+1:]...)
					return true
				})
			}
		}
	}
	// model: drop relations that nothing references, drop types without relations that nothing uses
	if sc.Model != nil {
		for ti, t := range sc.Model.Types {
			for ri := range t.Relations {
				ti, ri := ti, ri
				add(func(c *gen.Scenario) bool { return dropRelation(c, ti, ri) })
			}
		}
		// simplify rewrites: replace a set operation by one of its children
		for ti, t := range sc.Model.Types {
			for ri, r := range t.Relations {
				if r.Rewrite != nil && len(r.Rewrite.Children) > 0 {
					for ci := range r.Rewrite.Children {
						ti, ri, ci := ti, ri, ci
						add(func(c *gen.Scenario) bool {
							rel := c.Model.Types[ti].Relations[ri]
							rel.Rewrite = rel.Rewrite.Children[ci]
							if !hasThis(rel.Rewrite) {
								rel.Restrictions = nil
							}
							return true
						})
					}
				}
				for xi := range r.Restrictions {
					if len(r.Restrictions) > 1 {
						ti, ri, xi := ti, ri, xi
						add(func(c *gen.Scenario) bool {
							rel := c.Model.Types[ti].Relations[ri]
							rel.Restrictions = append(rel.Restrictions[:xi:xi], rel.Restrictions[xi+1:]...)
							return true
						})
					}
				}
			}
		}
	}
	// knobs to their quiet values
	for _, k := range sortedKnobs(sc.Knobs) {
		k := k
		q, ok := KnobQuiet[k]
		if ok && sc.Knobs[k] != q {
			add(func(c *gen.Scenario) bool { c.Knobs[k] = q; return true })
		}
	}
	return out
}

// KnobQuiet lists the knobs minimisation may reset, with their quiet values.
var KnobQuiet = map[string]int64{
	"faults": 0, "delay_mode": 3, "plan_policy": 1, "max_reads": 0, "optimizations": 0, "level": 0,
	"breadth": 25, "evict_pm": 0, "drop_pm": 0, "conc": 1, "iter_latency": 0,
	// kernel harness
	"producers": 1, "items": 1, "consumers": 1, "oneshot": 0, "grow": 0, "close_mode": 0, "capacity": 2, "extensions": 0,
	"max_yield_ns": 2000, "members": 2, "early_close": 0,
}

func sortedKnobs(m map[string]int64) []string {
	ks := make([]string, 0, len(m))
	for k := range m {
		ks = append(ks, k)
	}
	sort.Strings(ks)
	return ks
}

func hasThis(rw *rm.Rewrite) bool {
	if rw.Kind == rm.This {
		return true
	}
	for _, c := range rw.Children {
		if hasThis(c) {
			return true
		}
	}
	return false
}

func dropRelation(c *gen.Scenario, ti, ri int) bool {
	t := c.Model.Types[ti]
	name := t.Relations[ri].Name
	// referenced by another rewrite / restriction?
	for _, ot := range c.Model.Types {
		for _, r := range ot.Relations {
			if ot == t && r.Name == name {
				continue
			}
			if refs(r.Rewrite, ot.Name, t.Name, name, c.Model) {
				return false
			}
			for _, res := range r.Restrictions {
				if res.Type == t.Name && res.Relation == name {
					return false
				}
			}
		}
	}
	var uses func(rq gen.Request) bool
	uses = func(rq gen.Request) bool {
		if (rm.ObjType(rq.Obj) == t.Name || rq.Type == t.Name) && rq.Rel == name {
			return true
		}
		if _, _, ur := rm.SplitUser(rq.User); ur == name {
			return true
		}
		if _, _, fr := rm.SplitUser(rq.Filter); fr == name {
			return true
		}
		for _, ct := range rq.CtxTuples {
			if rm.ObjType(ct.Obj) == t.Name && ct.Rel == name {
				return true
			}
			if ut, _, ur := rm.SplitUser(ct.User); ut == t.Name && ur == name {
				return true
			}
		}
		for _, it := range rq.Items {
			if uses(it) {
				return true
			}
		}
		return false
	}
	for _, rq := range c.Requests {
		if uses(rq) {
			return false
		}
	}
	for _, op := range c.Ops {
		if op.Req != nil && uses(*op.Req) {
			return false
		}
		for _, ts := range [][]rm.Tuple{op.Writes, op.Deletes} {
			for _, ct := range ts {
				if rm.ObjType(ct.Obj) == t.Name && ct.Rel == name {
					return false
				}
				if ut, _, ur := rm.SplitUser(ct.User); ut == t.Name && ur == name {
					return false
				}
			}
		}
	}
	t.Relations = append(t.Relations[:ri:ri], t.Relations[ri+1:]...)
	// drop tuples on it
	var keep []rm.Tuple
	for _, tp := range c.Tuples {
		if rm.ObjType(tp.Obj) == t.Name && tp.Rel == name {
			continue
		}
		if ut, _, ur := rm.SplitUser(tp.User); ut == t.Name && ur == name {
			continue
		}
		keep = append(keep, tp)
	}
	c.Tuples = keep
	return true
}

func refs(rw *rm.Rewrite, ownerType, typ, rel string, m *rm.Model) bool {
	if rw == nil {
		return false
	}
	switch rw.Kind {
	case rm.Computed:
		if ownerType == typ && rw.Relation == rel {
			return true
		}
	case rm.TTU:
		if ownerType == typ && rw.Tupleset == rel {
			return true
		}
		if rw.Relation == rel {
			return true // conservative
		}
	}
	for _, c := range rw.Children {
		if refs(c, ownerType, typ, rel, m) {
			return true
		}
	}
	return false
}

// Package harness is the worker-side frame shared by every simulation binary: job protocol, the
// run loop (one testing/synctest bubble per run), watchdog, result records, minimisation driver.
package harness

import (
	"bufio"
	"encoding/json"
	"fmt"
	"os"
	"runtime"
	"runtime/debug"
	"strconv"
	"strings"
	"testing"
	"testing/synctest"
	"time"

	"github.com/openfga/openfga/internal/verifsim/gen"
	"github.com/openfga/openfga/internal/verifsim/simrt"
)

// Violation describes one property violation found in a run.
type Violation struct {
	Class  string `json:"class"`  // violation class (stable; used by minimisation to keep "the same" violation)
	Detail string `json:"detail"` // human readable
	Sig    string `json:"sig"`    // structural signature for known-findings matching
}

// Outcome of executing one scenario.
type Outcome struct {
	Violation  *Violation       `json:"violation,omitempty"`
	Skip       string           `json:"skip,omitempty"`
	Probes     map[string]int64 `json:"probes,omitempty"`
	Faults     map[string]int   `json:"faults,omitempty"`
	SimTimeNs  int64            `json:"sim_ns"`
	Events     int64            `json:"events"`
	Yields     int64            `json:"yields"`
	Digest     uint64           `json:"digest"`
	Shape      string           `json:"shape,omitempty"`
	SchedSig   uint64           `json:"sched_sig,omitempty"`
	Evals      int              `json:"evals"`
	NonTrivial bool             `json:"nontrivial"`
	Trace      []string         `json:"trace,omitempty"`
	Sample     any              `json:"sample,omitempty"`
	Infra      string           `json:"infra,omitempty"` // harness/infrastructure trouble (never a violation)
	Leak       string           `json:"leak,omitempty"`  // goroutines left behind at the end of the run (C20's business)
}

// Prop is one property check hosted by a harness binary.
type Prop struct {
	ID   string
	Gen  func(runSeed uint64, tier string) *gen.Scenario
	Exec func(t *testing.T, sc *gen.Scenario, trace bool) *Outcome
	// Shrink returns candidate simplifications of sc (optional; a generic shrinker is used otherwise).
	Shrink func(sc *gen.Scenario) []*gen.Scenario
}

// Job is the orchestrator -> worker request.
type Job struct {
	Mode     string        `json:"mode"` // run | replay | minimise | trace
	Property string        `json:"property"`
	Seed     uint64        `json:"seed"`
	Start    int           `json:"start"`
	Count    int           `json:"count"`
	Stride   int           `json:"stride"`
	Tier     string        `json:"tier"`
	BudgetS  float64       `json:"budget_s"`
	Out      string        `json:"out"`
	Scenario *gen.Scenario `json:"scenario,omitempty"`
	Trace    bool          `json:"trace"`
	KeepGoing bool         `json:"keep_going"`
	// RunSeedOverride (gen mode): generate the scenario of this run seed instead of (Seed, Start)
	RunSeedOverride uint64 `json:"run_seed_override,omitempty"`
}

// Record is one line of the worker's output file.
type Record struct {
	Kind     string        `json:"kind"` // begin | end | min | done
	Run      int           `json:"run"`
	RunSeed  uint64        `json:"run_seed"`
	Outcome  *Outcome      `json:"outcome,omitempty"`
	Scenario *gen.Scenario `json:"scenario,omitempty"`
	WallMs   float64       `json:"wall_ms,omitempty"`
	Steps    int           `json:"steps,omitempty"`
}


// No in-process watchdog: a goroutine that wakes up on REAL time takes the P's runnext slot when it
// becomes runnable and thereby reorders the simulated goroutines (measured: ~8% of C02 runs diverged).
// The orchestrator watches the worker's output file instead and sends SIGQUIT (stack dump) when a
// run makes no progress.

// RunSeed derives the per-run seed.
func RunSeed(seed uint64, property string, idx int) uint64 {
	return simrt.Hash(seed, "run", property, idx)
}

// Bubble runs fn inside a synctest bubble and converts an end-of-bubble deadlock panic (or any
// panic on the root goroutine) into a string.
func Bubble(t *testing.T, fn func(t *testing.T)) (panicMsg string) {
	defer func() {
		if r := recover(); r != nil {
			panicMsg = fmt.Sprint(r)
			if !strings.Contains(panicMsg, "deadlock") {
				panicMsg += "\n" + string(debug.Stack())
			}
		}
	}()
	synctest.Test(t, fn)
	return ""
}

// Main is the body of each harness binary's TestWorker.
func Main(t *testing.T, props []*Prop) {
	path := os.Getenv("VSIM_JOB")
	if path == "" {
		t.Skip("VSIM_JOB not set")
	}
	b, err := os.ReadFile(path)
	if err != nil {
		t.Fatalf("job: %v", err)
	}
	var job Job
	if err := json.Unmarshal(b, &job); err != nil {
		t.Fatalf("job: %v", err)
	}
	var prop *Prop
	for _, p := range props {
		if p.ID == job.Property {
			prop = p
		}
	}
	if prop == nil {
		t.Fatalf("unknown property %q", job.Property)
	}
	f, err := os.Create(job.Out)
	if err != nil {
		t.Fatalf("out: %v", err)
	}
	defer f.Close()
	w := bufio.NewWriter(f)
	emit := func(r Record) {
		b, _ := json.Marshal(r)
		w.Write(b)
		w.WriteByte('\n')
		w.Flush()
	}
	debug.SetGCPercent(-1)
	defer debug.SetGCPercent(100)

	exec := func(sc *gen.Scenario, trace bool) *Outcome {
		var out *Outcome
		func() {
			defer func() {
				if r := recover(); r != nil {
					out = &Outcome{Infra: fmt.Sprintf("harness panic: %v\n%s", r, debug.Stack())}
				}
			}()
			out = prop.Exec(t, sc, trace)
		}()
		runtime.GC()
		return out
	}

	switch job.Mode {
	case "run":
		start := time.Now()
		stride := job.Stride
		if stride <= 0 {
			stride = 1
		}
		for i := 0; i < job.Count; i++ {
			idx := job.Start + i*stride
			if job.BudgetS > 0 && time.Since(start).Seconds() > job.BudgetS {
				break
			}
			rs := RunSeed(job.Seed, job.Property, idx)
			emit(Record{Kind: "begin", Run: idx, RunSeed: rs})
			t0 := time.Now()
			sc := prop.Gen(rs, job.Tier)
			sc.Property = job.Property
			sc.RunSeed = rs
			debugOverrides(sc)
			out := exec(sc, job.Trace)
			rec := Record{Kind: "end", Run: idx, RunSeed: rs, Outcome: out, WallMs: float64(time.Since(t0).Microseconds()) / 1000}
			if out.Violation != nil || out.Infra != "" {
				rec.Scenario = sc
			}
			emit(rec)
			if (out.Violation != nil || out.Infra != "") && !job.KeepGoing {
				break
			}
		}
		emit(Record{Kind: "done"})
	case "replay", "trace":
		sc := job.Scenario
		out := exec(sc, true)
		emit(Record{Kind: "end", RunSeed: sc.RunSeed, Outcome: out, Scenario: sc})
		emit(Record{Kind: "done"})
	case "gen":
		// emit the scenario of one run index without executing it (the orchestrator needs it when the
		// worker died inside that run)
		rs := RunSeed(job.Seed, job.Property, job.Start)
		if job.RunSeedOverride != 0 {
			rs = job.RunSeedOverride
		}
		sc := prop.Gen(rs, job.Tier)
		sc.Property = job.Property
		sc.RunSeed = rs
		debugOverrides(sc)
		emit(Record{Kind: "end", Run: job.Start, RunSeed: rs, Outcome: &Outcome{}, Scenario: sc})
		emit(Record{Kind: "done"})
	case "minimise":
		sc := job.Scenario
		first := exec(sc, false)
		if first.Violation == nil {
			emit(Record{Kind: "min", Outcome: first, Scenario: sc})
			emit(Record{Kind: "done"})
			return
		}
		class := first.Violation.Class
		steps := 0
		deadline := time.Now().Add(time.Duration(job.BudgetS * float64(time.Second)))
		cur := sc
		curOut := first
		for improved := true; improved && time.Now().Before(deadline); {
			improved = false
			var cands []*gen.Scenario
			if prop.Shrink != nil {
				cands = prop.Shrink(cur)
			} else {
				cands = GenericShrink(cur)
			}
			for _, c := range cands {
				if time.Now().After(deadline) {
					break
				}
				steps++
				o := exec(c, false)
				if o.Violation != nil && o.Violation.Class == class {
					cur, curOut = c, o
					improved = true
					break
				}
			}
		}
		cur.Note = fmt.Sprintf("minimised in %d steps from run_seed %d", steps, sc.RunSeed)
		emit(Record{Kind: "min", Outcome: curOut, Scenario: cur, Steps: steps})
		emit(Record{Kind: "done"})
	default:
		t.Fatalf("unknown mode %q", job.Mode)
	}
}

// debugOverrides pins knobs of generated scenarios from VSIM_FORCE_KNOBS ("k=v,k=v"): a debugging
// aid for aiming a batch of runs at one configuration; unset in every registered check.
func debugOverrides(sc *gen.Scenario) {
	v := os.Getenv("VSIM_FORCE_KNOBS")
	if v == "" || sc == nil {
		return
	}
	for _, kv := range strings.Split(v, ",") {
		k, val, ok := strings.Cut(kv, "=")
		if !ok {
			continue
		}
		n, err := strconv.ParseInt(val, 10, 64)
		if err == nil {
			sc.Knobs[k] = n
		}
	}
}

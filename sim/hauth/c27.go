// Package hauth hosts C27: authentication accepts exactly valid credentials. The authenticators run
// inside a synctest bubble, so token lifetimes are judged against the simulator's clock: tokens are
// minted at one virtual instant and presented at another (before issue, inside the lifetime, at the
// expiry instant, after it).
package hauth

import (
	"context"
	"crypto/rand"
	"crypto/rsa"
	"encoding/base64"
	"encoding/json"
	"fmt"
	"strings"
	"sync"
	"testing"
	"time"

	"github.com/MicahParks/keyfunc/v2"
	"github.com/golang-jwt/jwt/v5"
	"google.golang.org/grpc/metadata"

	"github.com/openfga/openfga/internal/authn/oidc"
	"github.com/openfga/openfga/internal/authn/presharedkey"
	"github.com/openfga/openfga/internal/verifsim/gen"
	"github.com/openfga/openfga/internal/verifsim/harness"
	"github.com/openfga/openfga/internal/verifsim/simrt"
)

func Props() []*harness.Prop {
	return []*harness.Prop{{ID: "C27", Gen: c27Gen, Exec: c27Exec}}
}

var (
	keyOnce           sync.Once
	trusted, attacker *rsa.PrivateKey
)

// keys are made once per worker process (RSA generation is slow and outside the simulation; which
// key bits are drawn has no influence on any decision, only "is the signing key in the key set").
func keys() (*rsa.PrivateKey, *rsa.PrivateKey) {
	keyOnce.Do(func() {
		trusted, _ = rsa.GenerateKey(rand.Reader, 2048)
		attacker, _ = rsa.GenerateKey(rand.Reader, 2048)
	})
	return trusted, attacker
}

const (
	issuer   = "https://issuer.example/"
	alias1   = "https://alias-one.example/"
	alias2   = "issuer-alias-2"
	audience = "openfga.example"
)

func c27Gen(runSeed uint64, tier string) *gen.Scenario {
	g := gen.New(runSeed ^ 0xc27)
	sc := &gen.Scenario{Version: 1, Harness: "hauth", Knobs: map[string]int64{}}
	k := sc.Knobs
	k["jwk_without_alg"] = int64(g.Intn(2))
	k["aliases"] = int64(g.Intn(3))
	k["subjects"] = int64(g.Intn(3)) // 0 = any subject
	k["psk_keys"] = int64(1 + g.Intn(3))
	n := 20 + g.Intn(20)
	for i := 0; i < n; i++ {
		r := gen.Request{Kind: "oidc", Ctx: map[string]any{}}
		if g.Chance(0.25) {
			r.Kind = "psk"
			r.User = gen.Pick(g, []string{"key-0", "key-1", "key-2", "key-3", "key-", "key-0 ", " key-0", "KEY-0", "", "key-0\x00", "key-00", "Bearer key-0"})
			r.Filter = gen.Pick(g, []string{"Bearer", "Bearer", "Bearer", "bearer", "Basic", "", "Bearer "})
			sc.Requests = append(sc.Requests, r)
			continue
		}
		c := r.Ctx
		// each dimension is valid with high probability so that single-defect tokens dominate
		pick := func(valid string, invalid ...string) string {
			if g.Chance(0.72) {
				return valid
			}
			return gen.Pick(g, invalid)
		}
		c["alg"] = pick("RS256", "RS256-attacker", "HS256-pubkey", "none", "RS384", "RS512", "PS256", "RS256-badsig", "RS256-nokid", "RS256-wrongkid")
		c["exp"] = pick("future", "past", "missing", "at_use", "far_future", "string")
		c["iat"] = pick("past", "missing", "future", "at_use")
		c["aud"] = pick("ok", "other", "missing", "list_ok", "list_other", "prefix", "case")
		c["iss"] = pick("main", "other", "missing", "alias1", "alias2", "prefix", "number")
		c["sub"] = pick("s0", "s1", "s2", "other", "missing", "number")
		c["nbf"] = gen.Pick(g, []string{"missing", "missing", "missing", "past", "future"})
		// when the token is presented relative to its issue: seconds after minting
		c["use_after_s"] = float64(gen.Pick(g, []int{0, 1, 30, 299, 300, 301, 3600}))
		// a token that was accepted is presented again this much later (-1 = not): acceptance is a
		// function of the token and the instant, not of what the authenticator has seen before
		c["again_after_s"] = float64(gen.Pick(g, []int{-1, -1, -1, 0, 1, 120, 298, 301, 400}))
		sc.Requests = append(sc.Requests, r)
	}
	return sc
}

func b64(v any) string {
	b, _ := json.Marshal(v)
	return base64.RawURLEncoding.EncodeToString(b)
}

// mint builds the token described by c at virtual time now; lifetime is 300 s. It returns the token
// and whether the reference accepts it when presented useAfter later.
func mint(c map[string]any, now time.Time, aliases, subjects []string) (string, bool, string) {
	tk, atk := keys()
	useAfter := time.Duration(c["use_after_s"].(float64)) * time.Second
	at := now.Add(useAfter)
	claims := jwt.MapClaims{}
	ok := true
	why := ""
	bad := func(s string) {
		if ok {
			why = s
		}
		ok = false
	}
	switch c["exp"] {
	case "future":
		claims["exp"] = now.Add(300 * time.Second).Unix()
		if !at.Before(time.Unix(now.Add(300*time.Second).Unix(), 0)) {
			bad("expired at use")
		}
	case "far_future":
		claims["exp"] = now.Add(24 * 365 * time.Hour).Unix()
	case "past":
		claims["exp"] = now.Add(-time.Second).Unix()
		bad("expired")
	case "at_use":
		claims["exp"] = at.Unix()
		bad("expires at the instant of use")
	case "string":
		claims["exp"] = "tomorrow"
		bad("exp is not a number")
	case "missing":
		bad("no exp")
	}
	switch c["iat"] {
	case "past":
		claims["iat"] = now.Add(-10 * time.Second).Unix()
	case "at_use":
		claims["iat"] = at.Unix()
	case "future":
		claims["iat"] = at.Add(3600 * time.Second).Unix()
		bad("issued in the future")
	}
	switch c["nbf"] {
	case "past":
		claims["nbf"] = now.Add(-10 * time.Second).Unix()
	case "future":
		claims["nbf"] = at.Add(3600 * time.Second).Unix()
		bad("not valid yet") // a token that says it is not valid yet may be refused; never required to be accepted
	}
	switch c["aud"] {
	case "ok":
		claims["aud"] = audience
	case "other":
		claims["aud"] = "someone-else"
		bad("audience")
	case "list_ok":
		claims["aud"] = []string{"x", audience}
	case "list_other":
		claims["aud"] = []string{"x", "y"}
		bad("audience")
	case "prefix":
		claims["aud"] = audience + ".evil"
		bad("audience")
	case "case":
		claims["aud"] = strings.ToUpper(audience)
		bad("audience")
	case "missing":
		bad("audience")
	}
	switch c["iss"] {
	case "main":
		claims["iss"] = issuer
	case "alias1":
		claims["iss"] = alias1
		if len(aliases) < 1 {
			bad("issuer")
		}
	case "alias2":
		claims["iss"] = alias2
		if len(aliases) < 2 {
			bad("issuer")
		}
	case "other":
		claims["iss"] = "https://evil.example/"
		bad("issuer")
	case "prefix":
		claims["iss"] = issuer + "x"
		bad("issuer")
	case "number":
		claims["iss"] = 42
		bad("issuer")
	case "missing":
		bad("issuer")
	}
	switch c["sub"] {
	case "s0", "s1", "s2":
		claims["sub"] = c["sub"]
		if len(subjects) > 0 {
			in := false
			for _, s := range subjects {
				if s == c["sub"] {
					in = true
				}
			}
			if !in {
				bad("subject")
			}
		}
	case "other":
		claims["sub"] = "mallory"
		if len(subjects) > 0 {
			bad("subject")
		}
	case "number":
		claims["sub"] = 7
		bad("subject is not a string")
	case "missing":
		if len(subjects) > 0 {
			bad("subject")
		}
	}
	claims["azp"] = "client-1"
	sign := func(m jwt.SigningMethod, key any, kid string) string {
		t := jwt.NewWithClaims(m, claims)
		if kid != "" {
			t.Header["kid"] = kid
		}
		s, err := t.SignedString(key)
		if err != nil {
			return "signing-failed"
		}
		return s
	}
	var tok string
	switch c["alg"] {
	case "RS256":
		tok = sign(jwt.SigningMethodRS256, tk, "k1")
	case "RS256-attacker":
		tok = sign(jwt.SigningMethodRS256, atk, "k1")
		bad("signed by a key that is not in the key set")
	case "RS256-wrongkid":
		tok = sign(jwt.SigningMethodRS256, tk, "k9")
		bad("unknown key id")
	case "RS256-nokid":
		tok = sign(jwt.SigningMethodRS256, tk, "")
		bad("no key id") // the key set is looked up by kid; refusing is the documented behaviour of the library
	case "RS256-badsig":
		tok = sign(jwt.SigningMethodRS256, tk, "k1")
		tok = tok[:len(tok)-6] + "AAAAAA"
		bad("signature")
	case "RS384":
		tok = sign(jwt.SigningMethodRS384, tk, "k1")
		bad("algorithm")
	case "RS512":
		tok = sign(jwt.SigningMethodRS512, tk, "k1")
		bad("algorithm")
	case "PS256":
		tok = sign(jwt.SigningMethodPS256, tk, "k1")
		bad("algorithm")
	case "HS256-pubkey":
		// algorithm confusion: HMAC with the public modulus as the secret
		tok = sign(jwt.SigningMethodHS256, tk.PublicKey.N.Bytes(), "k1")
		bad("algorithm")
	case "none":
		tok = b64(map[string]any{"alg": "none", "typ": "JWT", "kid": "k1"}) + "." + b64(claims) + "."
		bad("algorithm")
	}
	return tok, ok, why
}

func c27Exec(t *testing.T, sc *gen.Scenario, trace bool) *harness.Outcome {
	out := &harness.Outcome{Shape: fmt.Sprintf("a%d s%d", sc.Knob("aliases", 0), sc.Knob("subjects", 0))}
	violate := func(class, sig, format string, a ...any) {
		if out.Violation == nil {
			out.Violation = &harness.Violation{Class: class, Sig: sig, Detail: fmt.Sprintf(format, a...)}
		}
	}
	tk, _ := keys()
	msg := harness.Bubble(t, func(t *testing.T) {
		run := simrt.Begin(simrt.Config{Seed: sc.RunSeed, Trace: trace})
		defer simrt.End()
		aliases := []string{alias1, alias2}[:sc.Knob("aliases", 0)]
		subjects := []string{"s0", "s1"}[:sc.Knob("subjects", 0)]
		// the "alg" member of a JWK is optional (RFC 7517 §4.4): half of the runs publish the key without it
		keyOpts := keyfunc.GivenKeyOptions{Algorithm: "RS256"}
		if sc.Knob("jwk_without_alg", 0) == 1 {
			keyOpts = keyfunc.GivenKeyOptions{}
		}
		jwks := keyfunc.NewGiven(map[string]keyfunc.GivenKey{"k1": keyfunc.NewGivenRSA(&tk.PublicKey, keyOpts)})
		auth := &oidc.RemoteOidcAuthenticator{MainIssuer: issuer, IssuerAliases: aliases, Audience: audience, Subjects: subjects, ClientIDClaims: []string{"azp", "client_id"}, JWKs: jwks}
		var pskKeys []string
		for i := 0; i < int(sc.Knob("psk_keys", 1)); i++ {
			pskKeys = append(pskKeys, fmt.Sprintf("key-%d", i))
		}
		psk, err := presharedkey.NewPresharedKeyAuthenticator(pskKeys)
		if err != nil {
			out.Infra = err.Error()
			return
		}
		for i, rq := range sc.Requests {
			if rq.Kind == "psk" {
				header := strings.TrimSpace(rq.Filter + " " + rq.User)
				if rq.Filter == "" {
					header = rq.User
				}
				ctx := metadata.NewIncomingContext(context.Background(), metadata.Pairs("authorization", header))
				_, err := psk.Authenticate(ctx)
				// the header as the server sees it: "<scheme> <token>", scheme compared case-insensitively
				want := false
				if parts := strings.SplitN(header, " ", 2); len(parts) == 2 && strings.EqualFold(parts[0], "bearer") {
					for _, k := range pskKeys {
						if parts[1] == k {
							want = true
						}
					}
				}
				out.Evals++
				run.Log("psk", fmt.Sprintf("r%d want=%v got=%v", i, want, err == nil))
				if (err == nil) != want {
					violate(map[bool]string{true: "invalid_key_accepted", false: "valid_key_rejected"}[err == nil], "method=preshared", "request %d: authorization header %q with keys %v: authenticated=%v, expected %v", i, header, pskKeys, err == nil, want)
					return
				}
				continue
			}
			now := time.Now()
			tok, want, why := mint(rq.Ctx, now, aliases, subjects)
			time.Sleep(time.Duration(rq.Ctx["use_after_s"].(float64))*time.Second + 1)
			ctx := metadata.NewIncomingContext(context.Background(), metadata.Pairs("authorization", "Bearer "+tok))
			claims, err := auth.Authenticate(ctx)
			out.Evals++
			run.Log("oidc", fmt.Sprintf("r%d want=%v got=%v (%s)", i, want, err == nil, why))
			desc := fmt.Sprintf("alg=%v exp=%v iat=%v nbf=%v aud=%v iss=%v sub=%v presented %vs after minting (aliases=%d subjects=%v)", rq.Ctx["alg"], rq.Ctx["exp"], rq.Ctx["iat"], rq.Ctx["nbf"], rq.Ctx["aud"], rq.Ctx["iss"], rq.Ctx["sub"], rq.Ctx["use_after_s"], len(aliases), subjects)
			switch {
			case err == nil && !want:
				violate("invalid_token_accepted", "method=oidc reason="+strings.ReplaceAll(why, " ", "_"), "request %d: token accepted although it must be refused (%s): %s", i, why, desc)
				return
			case err != nil && want:
				violate("valid_token_rejected", "method=oidc", "request %d: valid token refused (%v): %s", i, err, desc)
				return
			case err == nil && claims.ClientID != "client-1":
				violate("wrong_client_id", "method=oidc", "request %d: client id %q extracted, the token says client-1", i, claims.ClientID)
				return
			}
			if again, _ := rq.Ctx["again_after_s"].(float64); again >= 0 && err == nil && want && (rq.Ctx["exp"] == "future" || rq.Ctx["exp"] == "far_future") && rq.Ctx["iat"] != "at_use" {
				// the same token, the same authenticator, a later instant: every claim but exp stays as valid
				// as it was
				time.Sleep(time.Duration(again) * time.Second)
				want2 := rq.Ctx["exp"] == "far_future" || time.Now().Before(time.Unix(now.Add(300*time.Second).Unix(), 0))
				_, err2 := auth.Authenticate(metadata.NewIncomingContext(context.Background(), metadata.Pairs("authorization", "Bearer "+tok)))
				out.Evals++
				run.Log("oidc", fmt.Sprintf("r%d again want=%v got=%v", i, want2, err2 == nil))
				if (err2 == nil) != want2 {
					violate(map[bool]string{true: "invalid_token_accepted", false: "valid_token_rejected"}[err2 == nil], "method=oidc reason=presented_again", "request %d: the token accepted %vs after minting was presented again %vs later: authenticated=%v, expected %v: %s", i, rq.Ctx["use_after_s"], again, err2 == nil, want2, desc)
					return
				}
			}
			if want {
				simrt.Probe("tokens_accepted")
			} else {
				simrt.Probe("tokens_refused")
			}
		}
		out.NonTrivial = out.Evals > 0
		out.Digest = run.Digest()
		out.Events = run.NumEvents()
		out.SimTimeNs = int64(run.Elapsed())
		out.Probes = run.Probes()
		if trace {
			out.Trace = run.Events()
		}
	})
	if msg != "" && out.Violation == nil && out.Infra == "" {
		out.Infra = "bubble: " + msg
	}
	return out
}

package hauth

import (
	"testing"

	"github.com/openfga/openfga/internal/verifsim/harness"
)

func TestWorker(t *testing.T) { harness.Main(t, Props()) }

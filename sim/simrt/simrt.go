// Package simrt is the run-time half of the deterministic simulator: one integer (the run seed)
// decides every delay, fault and choice by keyed hashing; virtual time comes from the enclosing
// testing/synctest bubble. All entry points are no-ops when no run is active.
package simrt

import (
	"context"
	mrand "math/rand"

	"github.com/oklog/ulid/v2"

	"os"
	"fmt"
	"runtime"
	"sort"
	"strconv"
	"strings"
	"sync"
	"sync/atomic"
	"time"
)

// Delay modes (DESIGN §2.1).
const (
	ModeUniform = iota
	ModeStall
	ModePriority
	ModeNearSeq
	NumModes
)

type Config struct {
	Seed  uint64
	Mode  int
	Trace bool // keep the full event log (replay / determinism self-test)
	// MaxYield is the upper bound of an ordinary yield delay in virtual nanoseconds.
	MaxYield int64
}

type Run struct {
	cfg      Config
	mu       sync.Mutex
	counters map[string]uint64
	taken    map[int64]struct{}
	digest   uint64
	nEvents  int64
	events   []string
	probes   map[string]int64
	names    map[string]string // canonical names for ULIDs etc.
	gids     map[uint64]string // goroutine id -> logical identity
	anon     int
	nYields  int64
	prio     map[string]int64
	start    time.Time
	overrides map[string]int64
}

var cur atomic.Pointer[Run]

// Begin starts a run. Must be called inside the bubble.
func Begin(cfg Config) *Run {
	if cfg.MaxYield <= 0 {
		cfg.MaxYield = 2000
	}
	r := &Run{
		cfg:      cfg,
		counters: map[string]uint64{},
		taken:    map[int64]struct{}{},
		probes:   map[string]int64{},
		names:    map[string]string{},
		gids:     map[uint64]string{},
		prio:     map[string]int64{},
		digest:   1469598103934665603,
		start:    time.Now(),
		overrides: map[string]int64{},
	}
	cur.Store(r)
	// the patched runtime (see vcheck's runtimeOverlay) makes map order and select order a function
	// of the run seed from here on
	runtime.SimSetSeed(cfg.Seed, true)
	// the patched ulid module (vcheck's ulidOverlay) restarts its process-wide entropy source
	ulid.SimReseed(int64(cfg.Seed >> 1))
	// math/rand's global source (workers run with randautoseed=0) is shared by all runs of a worker
	// process: restart it, so that a run does not depend on how much earlier runs drew from it
	mrand.Seed(int64(cfg.Seed >> 1)) //nolint:staticcheck
	return r
}

// End finishes the active run.
func End() {
	runtime.SimSetSeed(0, false)
	cur.Store(nil)
}

// Cur returns the active run or nil.
func Cur() *Run { return cur.Load() }

func Active() bool { return cur.Load() != nil }

// ---------------------------------------------------------------- hashing

func mix(x uint64) uint64 {
	x += 0x9e3779b97f4a7c15
	x = (x ^ (x >> 30)) * 0xbf58476d1ce4e5b9
	x = (x ^ (x >> 27)) * 0x94d049bb133111eb
	return x ^ (x >> 31)
}

func hashStr(h uint64, s string) uint64 {
	for i := 0; i < len(s); i++ {
		h ^= uint64(s[i])
		h *= 1099511628211
	}
	return mix(h)
}

// Hash mixes a seed with string and integer parts (stable across processes).
func Hash(seed uint64, parts ...any) uint64 {
	h := mix(seed)
	for _, p := range parts {
		switch v := p.(type) {
		case string:
			h = hashStr(h^0x5bd1e995, v)
		case int:
			h = mix(h ^ uint64(v))
		case int64:
			h = mix(h ^ uint64(v))
		case uint64:
			h = mix(h ^ v)
		case uint32:
			h = mix(h ^ uint64(v))
		case bool:
			if v {
				h = mix(h ^ 1)
			} else {
				h = mix(h ^ 2)
			}
		default:
			h = hashStr(h, fmt.Sprint(v))
		}
	}
	return h
}

// H is a keyed decision of the active run: H(kind, identity...) — independent of arrival order.
func (r *Run) H(parts ...any) uint64 { return Hash(r.cfg.Seed, parts...) }

// Occ returns the per-key occurrence number (0,1,2,...) for a decision identity.
func (r *Run) Occ(key string) uint64 {
	r.mu.Lock()
	n := r.counters[key]
	r.counters[key] = n + 1
	r.mu.Unlock()
	return n
}

// Override pins an individual decision for replay files / minimisation.
func (r *Run) Override(key string, v int64) { r.mu.Lock(); r.overrides[key] = v; r.mu.Unlock() }

func (r *Run) overridden(key string) (int64, bool) {
	r.mu.Lock()
	v, ok := r.overrides[key]
	r.mu.Unlock()
	return v, ok
}

// Chance returns true with probability p for the keyed decision.
func (r *Run) Chance(p float64, parts ...any) bool {
	if p <= 0 {
		return false
	}
	return float64(r.H(parts...)%1000000)/1000000.0 < p
}

// Pick returns a value in [0,n).
func (r *Run) Pick(n int, parts ...any) int {
	if n <= 1 {
		return 0
	}
	return int(r.H(parts...) % uint64(n))
}

// ---------------------------------------------------------------- events / probes

// Log appends an event to the run's log/digest. Never draws from the hash stream.
func (r *Run) Log(kind string, detail string) {
	if r == nil {
		return
	}
	now := time.Since(r.start)
	r.mu.Lock()
	r.nEvents++
	s := strconv.FormatInt(int64(now), 10) + " " + kind + " " + detail
	r.digest = hashStr(r.digest, s)
	if r.cfg.Trace {
		r.events = append(r.events, s)
	}
	r.mu.Unlock()
}

func Log(kind, detail string) {
	if r := cur.Load(); r != nil {
		r.Log(kind, detail)
	}
}

func (r *Run) Digest() uint64 { r.mu.Lock(); defer r.mu.Unlock(); return r.digest }
func (r *Run) NumEvents() int64 { r.mu.Lock(); defer r.mu.Unlock(); return r.nEvents }
func (r *Run) Events() []string { r.mu.Lock(); defer r.mu.Unlock(); return append([]string(nil), r.events...) }
func (r *Run) Elapsed() time.Duration { return time.Since(r.start) }
func (r *Run) NumYields() int64 { return atomic.LoadInt64(&r.nYields) }

// Probe bumps a reach counter ("this rare condition was hit").
func Probe(name string) {
	if r := cur.Load(); r != nil {
		r.mu.Lock()
		r.probes[name]++
		r.mu.Unlock()
	}
}

func ProbeN(name string, n int64) {
	if r := cur.Load(); r != nil {
		r.mu.Lock()
		r.probes[name] += n
		r.mu.Unlock()
	}
}

func (r *Run) Probes() map[string]int64 {
	r.mu.Lock()
	defer r.mu.Unlock()
	m := make(map[string]int64, len(r.probes))
	for k, v := range r.probes {
		m[k] = v
	}
	return m
}

// ---------------------------------------------------------------- canonical names

// Name registers a canonical (seed independent, ULID free) name for an opaque id.
func (r *Run) Name(id, name string) { r.mu.Lock(); r.names[id] = name; r.mu.Unlock() }

// Canon returns the canonical name of id (id itself if unknown and short; "?" + len otherwise).
func (r *Run) Canon(id string) string {
	r.mu.Lock()
	n, ok := r.names[id]
	r.mu.Unlock()
	if ok {
		return n
	}
	return id
}

// CanonAll replaces every registered id occurring in s.
func (r *Run) CanonAll(s string) string {
	r.mu.Lock()
	defer r.mu.Unlock()
	if len(r.names) == 0 {
		return s
	}
	ks := make([]string, 0, len(r.names))
	for k := range r.names {
		ks = append(ks, k)
	}
	sort.Strings(ks)
	for _, k := range ks {
		if strings.Contains(s, k) {
			s = strings.ReplaceAll(s, k, r.names[k])
		}
	}
	return s
}

// ---------------------------------------------------------------- identities

type reqKey struct{}

// WithReq tags a context with a logical request identity.
func WithReq(ctx context.Context, id string) context.Context {
	return context.WithValue(ctx, reqKey{}, id)
}

// ReqID returns the logical request identity carried by ctx ("bg" if none).
func ReqID(ctx context.Context) string {
	if v, ok := ctx.Value(reqKey{}).(string); ok {
		return v
	}
	return "bg"
}

// GoID parses the current goroutine id (simulation only; ~1.7µs).
func GoID() uint64 {
	var buf [64]byte
	n := runtime.Stack(buf[:], false)
	// "goroutine 123 ["
	s := buf[10:n]
	var id uint64
	for _, c := range s {
		if c < '0' || c > '9' {
			break
		}
		id = id*10 + uint64(c-'0')
	}
	return id
}

// SetIdentity binds the current goroutine to a logical identity until ClearIdentity.
func (r *Run) SetIdentity(name string) {
	g := GoID()
	r.mu.Lock()
	r.gids[g] = name
	r.mu.Unlock()
}

func (r *Run) ClearIdentity() {
	g := GoID()
	r.mu.Lock()
	delete(r.gids, g)
	r.mu.Unlock()
}

// Identity returns the logical identity of the current goroutine; goroutines the harness did not
// start get "anon<k>" in order of first appearance (deterministic when the schedule is).
func (r *Run) Identity() string {
	g := GoID()
	r.mu.Lock()
	defer r.mu.Unlock()
	if n, ok := r.gids[g]; ok {
		return n
	}
	r.anon++
	n := "anon" + strconv.Itoa(r.anon)
	r.gids[g] = n
	r.probes["anon_goroutines"]++
	if yieldLog {
		buf := make([]byte, 8<<10)
		st := string(buf[:runtime.Stack(buf, false)])
		var fr []string
		for _, l := range strings.Split(st, "\n") {
			if strings.HasPrefix(l, "github.com/openfga/openfga/") && !strings.Contains(l, "verifsim") {
				l = strings.TrimPrefix(l, "github.com/openfga/openfga/")
				if i := strings.LastIndex(l, "("); i > 0 {
					l = l[:i]
				}
				if j := strings.LastIndex(l, "/"); j > 0 {
					l = l[j+1:]
				}
				fr = append(fr, l)
			}
		}
		if len(fr) > 6 {
			fr = fr[:6]
		}
		if i := strings.Index(st, "created by "); i > 0 {
			c := st[i+11:]
			if j := strings.Index(c, "\n"); j > 0 {
				c = c[:j]
			}
			if j := strings.LastIndex(c, "/"); j > 0 {
				c = c[j+1:]
			}
			fr = append(fr, "[by "+c+"]")
		}
		r.nEvents++
		ev := "0 ident " + n + " g" + strconv.FormatUint(g, 10) + " " + strings.Join(fr, " < ")
		if r.cfg.Trace {
			r.events = append(r.events, ev)
		}
	}
	return n
}

// Go starts fn on a new goroutine with a logical identity.
func (r *Run) Go(name string, fn func()) {
	go func() {
		r.SetIdentity(name)
		defer r.ClearIdentity()
		fn()
	}()
}

// ---------------------------------------------------------------- yields

// delay computes the virtual delay for (identity, site, occurrence).
func (r *Run) delay(id, site string) int64 {
	key := id + "|" + site
	occ := r.Occ("y|" + key)
	if v, ok := r.overridden("y|" + key + "|" + strconv.FormatUint(occ, 10)); ok {
		return v
	}
	h := r.H("yield", id, site, occ)
	max := r.cfg.MaxYield
	switch r.cfg.Mode {
	case ModeStall:
		d := int64(h%uint64(max)) + 1
		if (h>>40)%16 == 0 {
			d *= 20 + int64((h>>48)%41)
		}
		return d
	case ModePriority:
		// each identity has a speed class that changes at a few change points
		epoch := occ / 32
		cls := int64(r.H("prio", id, epoch) % 4)
		base := int64(1) << (uint(cls) * 3) // 1, 8, 64, 512
		return base*int64(h%64+1) + 1
	case ModeNearSeq:
		if (h>>32)%24 == 0 {
			return int64(h%uint64(max*8)) + 1
		}
		return 50
	default:
		return int64(h%uint64(max)) + 1
	}
}

// reserve makes wake-up instants unique so that ties never decide anything.
func (r *Run) reserve(d int64) int64 {
	now := int64(time.Since(r.start))
	r.mu.Lock()
	for {
		if _, ok := r.taken[now+d]; !ok {
			r.taken[now+d] = struct{}{}
			break
		}
		d++
	}
	r.mu.Unlock()
	return d
}

// Unique returns a duration close to d whose end instant no other simulated wake-up uses: timers the
// harness creates for concurrent twins (cancellation, client deadlines) must not fire at the same
// instant, because the order in which the runtime runs timers of equal expiry is not ours.
func (r *Run) Unique(d time.Duration) time.Duration {
	if d <= 0 {
		d = 1
	}
	return time.Duration(r.reserve(int64(d)))
}

// Yield is a scheduling point: the caller sleeps for a seed-decided amount of virtual time.
func Yield(site string) {
	r := cur.Load()
	if r == nil {
		return
	}
	r.YieldAs(r.Identity(), site)
}

var yieldLog = os.Getenv("VSIM_YLOG") != ""

func (r *Run) YieldAs(id, site string) {
	atomic.AddInt64(&r.nYields, 1)
	d := r.reserve(r.delay(id, site))
	if yieldLog {
		r.Log("y", id+" "+site+" "+strconv.FormatInt(d, 10))
	}
	time.Sleep(time.Duration(d))
}

// SleepUnique sleeps for about d of virtual time (made unique), honouring ctx.
func (r *Run) SleepUnique(ctx context.Context, d time.Duration) error {
	if d <= 0 {
		d = 1
	}
	dd := r.reserve(int64(d))
	if ctx == nil {
		time.Sleep(time.Duration(dd))
		return nil
	}
	if err := ctx.Err(); err != nil {
		return err
	}
	t := time.NewTimer(time.Duration(dd))
	select {
	case <-t.C:
		return nil
	case <-ctx.Done():
		t.Stop()
		return ctx.Err()
	}
}

package simrt

import (
	"sync"
	"sync/atomic"
)

// Yielding twins of the sync/atomic types. The textual instrumenter (vcheck instrument.go) swaps
// them into the lock-free kernels (mpmc, mpsc, pipeline track/worker) so that every atomic
// operation, lock acquisition and channel operation is a scheduling point decided by the run seed.
// With no active run they behave exactly like the originals.

type AtomicInt64 struct{ v atomic.Int64 }

func (a *AtomicInt64) Load() int64                         { Yield("a64.load"); return a.v.Load() }
func (a *AtomicInt64) Store(x int64)                       { Yield("a64.store"); a.v.Store(x) }
func (a *AtomicInt64) Add(d int64) int64                   { Yield("a64.add"); return a.v.Add(d) }
func (a *AtomicInt64) Swap(x int64) int64                  { Yield("a64.swap"); return a.v.Swap(x) }
func (a *AtomicInt64) CompareAndSwap(o, n int64) bool      { Yield("a64.cas"); return a.v.CompareAndSwap(o, n) }

type AtomicUint64 struct{ v atomic.Uint64 }

func (a *AtomicUint64) Load() uint64                       { Yield("u64.load"); return a.v.Load() }
func (a *AtomicUint64) Store(x uint64)                     { Yield("u64.store"); a.v.Store(x) }
func (a *AtomicUint64) Add(d uint64) uint64                { Yield("u64.add"); return a.v.Add(d) }
func (a *AtomicUint64) Swap(x uint64) uint64               { Yield("u64.swap"); return a.v.Swap(x) }
func (a *AtomicUint64) CompareAndSwap(o, n uint64) bool    { Yield("u64.cas"); return a.v.CompareAndSwap(o, n) }

type AtomicInt32 struct{ v atomic.Int32 }

func (a *AtomicInt32) Load() int32                         { Yield("a32.load"); return a.v.Load() }
func (a *AtomicInt32) Store(x int32)                       { Yield("a32.store"); a.v.Store(x) }
func (a *AtomicInt32) Add(d int32) int32                   { Yield("a32.add"); return a.v.Add(d) }
func (a *AtomicInt32) Swap(x int32) int32                  { Yield("a32.swap"); return a.v.Swap(x) }
func (a *AtomicInt32) CompareAndSwap(o, n int32) bool      { Yield("a32.cas"); return a.v.CompareAndSwap(o, n) }

type AtomicUint32 struct{ v atomic.Uint32 }

func (a *AtomicUint32) Load() uint32                       { Yield("u32.load"); return a.v.Load() }
func (a *AtomicUint32) Store(x uint32)                     { Yield("u32.store"); a.v.Store(x) }
func (a *AtomicUint32) Add(d uint32) uint32                { Yield("u32.add"); return a.v.Add(d) }
func (a *AtomicUint32) Swap(x uint32) uint32               { Yield("u32.swap"); return a.v.Swap(x) }
func (a *AtomicUint32) CompareAndSwap(o, n uint32) bool    { Yield("u32.cas"); return a.v.CompareAndSwap(o, n) }

type AtomicBool struct{ v atomic.Bool }

func (a *AtomicBool) Load() bool                           { Yield("ab.load"); return a.v.Load() }
func (a *AtomicBool) Store(x bool)                         { Yield("ab.store"); a.v.Store(x) }
func (a *AtomicBool) Swap(x bool) bool                     { Yield("ab.swap"); return a.v.Swap(x) }
func (a *AtomicBool) CompareAndSwap(o, n bool) bool        { Yield("ab.cas"); return a.v.CompareAndSwap(o, n) }

type AtomicPointer[T any] struct{ v atomic.Pointer[T] }

func (a *AtomicPointer[T]) Load() *T                       { Yield("ap.load"); return a.v.Load() }
func (a *AtomicPointer[T]) Store(x *T)                     { Yield("ap.store"); a.v.Store(x) }
func (a *AtomicPointer[T]) Swap(x *T) *T                   { Yield("ap.swap"); return a.v.Swap(x) }
func (a *AtomicPointer[T]) CompareAndSwap(o, n *T) bool    { Yield("ap.cas"); return a.v.CompareAndSwap(o, n) }

// Mutex / RWMutex: yield before acquiring (the wait itself is a durable block thanks to the runtime
// overlay, see vcheck runtimeOverlay).
type Mutex struct{ m sync.Mutex }

func (m *Mutex) Lock()         { Yield("mu.lock"); m.m.Lock() }
func (m *Mutex) Unlock()       { m.m.Unlock() }
func (m *Mutex) TryLock() bool { Yield("mu.trylock"); return m.m.TryLock() }

type RWMutex struct{ m sync.RWMutex }

func (m *RWMutex) Lock()          { Yield("rw.lock"); m.m.Lock() }
func (m *RWMutex) Unlock()        { m.m.Unlock() }
func (m *RWMutex) RLock()         { Yield("rw.rlock"); m.m.RLock() }
func (m *RWMutex) RUnlock()       { m.m.RUnlock() }
func (m *RWMutex) TryLock() bool  { Yield("rw.trylock"); return m.m.TryLock() }
func (m *RWMutex) TryRLock() bool { Yield("rw.tryrlock"); return m.m.TryRLock() }
func (m *RWMutex) RLocker() sync.Locker { return m.m.RLocker() }

// Package hkernel hosts the fine-grained checks of the concurrency kernels (C22 queues, C21 cycle
// groups, C23 iterators). The kernel sources are instrumented textually (vcheck instrument.go): every
// atomic operation, lock acquisition, select and channel statement is a scheduling point.
package hkernel

import (
	"context"
	"fmt"
	"sort"
	"strings"
	"sync"
	"sync/atomic"
	"testing"
	"testing/synctest"
	"time"

	"github.com/openfga/openfga/internal/containers/mpmc"
	"github.com/openfga/openfga/internal/containers/mpsc"
	"github.com/openfga/openfga/internal/verifsim/gen"
	"github.com/openfga/openfga/internal/verifsim/harness"
	"github.com/openfga/openfga/internal/verifsim/simrt"
)

// op is one completed (or still pending) queue operation of the recorded history.
type op struct {
	Client string `json:"c"`
	Kind   string `json:"k"` // send | recv | close | grow
	Val    int    `json:"v"`
	OK     bool   `json:"ok"`
	Call   int64  `json:"call"`
	Ret    int64  `json:"ret"` // 0 = never returned
}

type recorder struct {
	mu  sync.Mutex
	seq atomic.Int64
	ops []*op
}

func (r *recorder) begin(client, kind string, val int) *op {
	o := &op{Client: client, Kind: kind, Val: val, Call: r.seq.Add(1)}
	r.mu.Lock()
	r.ops = append(r.ops, o)
	r.mu.Unlock()
	return o
}

func (r *recorder) end(o *op, val int, ok bool) {
	if o.Kind == "recv" {
		o.Val = val
	}
	o.OK = ok
	o.Ret = r.seq.Add(1)
}

func c22Gen(runSeed uint64, tier string) *gen.Scenario {
	g := gen.New(runSeed)
	sc := &gen.Scenario{Version: 1, Harness: "hkernel", Knobs: map[string]int64{}}
	sc.Knobs["queue"] = int64(g.Intn(3)) // 0,1 = mpmc ; 2 = mpsc accumulator
	sc.Knobs["capacity"] = []int64{2, 2, 4, 8}[g.Intn(4)]
	sc.Knobs["extensions"] = []int64{0, 0, 1, 2, -1}[g.Intn(5)]
	sc.Knobs["producers"] = int64(1 + g.Intn(3))
	sc.Knobs["items"] = int64(1 + g.Intn(6))
	sc.Knobs["consumers"] = int64(1 + g.Intn(2))
	sc.Knobs["oneshot"] = int64(g.Intn(3)) // number of one-shot receivers in addition / instead
	sc.Knobs["close_mode"] = int64(g.Intn(3)) // 0 after producers, 1 at a seed-chosen moment, 2 never (drain by count)
	sc.Knobs["grow"] = int64(g.Intn(3))       // 0 none, else Grow(capacity*2^k) from a helper goroutine
	sc.Knobs["delay_mode"] = int64(g.Intn(simrt.NumModes))
	sc.Knobs["max_yield_ns"] = []int64{200, 2000, 20000}[g.Intn(3)]
	if sc.Knobs["queue"] == 2 {
		sc.Knobs["consumers"] = 1
		sc.Knobs["oneshot"] = 0
	}
	return sc
}

func c22Exec(t *testing.T, sc *gen.Scenario, trace bool) *harness.Outcome {
	out := &harness.Outcome{Shape: fmt.Sprintf("q%d cap%d ext%d p%d c%d os%d close%d grow%d", sc.Knob("queue", 0), sc.Knob("capacity", 2), sc.Knob("extensions", 0), sc.Knob("producers", 1), sc.Knob("consumers", 1), sc.Knob("oneshot", 0), sc.Knob("close_mode", 0), sc.Knob("grow", 0))}
	violate := func(class, sig, format string, a ...any) {
		if out.Violation == nil {
			out.Violation = &harness.Violation{Class: class, Sig: sig, Detail: fmt.Sprintf(format, a...)}
		}
	}
	msg := harness.Bubble(t, func(t *testing.T) {
		run := simrt.Begin(simrt.Config{Seed: sc.RunSeed, Mode: int(sc.Knob("delay_mode", 0)), Trace: trace, MaxYield: sc.Knob("max_yield_ns", 2000)})
		defer simrt.End()
		rec := &recorder{}
		isMPSC := sc.Knob("queue", 0) == 2
		qname := map[bool]string{true: "mpsc", false: "mpmc"}[isMPSC]
		var q *mpmc.Queue[int]
		var acc *mpsc.Accumulator[int]
		if isMPSC {
			acc = mpsc.NewAccumulator[int]()
		} else {
			q = mpmc.MustQueue[int](int(sc.Knob("capacity", 2)), int(sc.Knob("extensions", 0)))
		}
		ctx, cancelAll := context.WithCancel(context.Background())
		defer cancelAll()
		send := func(v int) bool {
			if isMPSC {
				return acc.Send(v)
			}
			return q.Send(ctx, v)
		}
		recv := func() (int, bool) {
			if isMPSC {
				return acc.Recv(ctx)
			}
			return q.Recv(ctx)
		}
		closeQ := func() {
			if isMPSC {
				acc.Close()
			} else {
				q.Close()
			}
		}
		np, ni := int(sc.Knob("producers", 1)), int(sc.Knob("items", 1))
		total := np * ni
		var prodWG, consWG sync.WaitGroup
		var closeOp *op
		var closeOnce sync.Once
		doClose := func(who string) {
			closeOnce.Do(func() {
				o := rec.begin(who, "close", 0)
				closeQ()
				rec.end(o, 0, true)
				closeOp = o
			})
		}
		for p := 0; p < np; p++ {
			p := p
			prodWG.Add(1)
			run.Go(fmt.Sprintf("p%d", p), func() {
				defer prodWG.Done()
				for k := 0; k < ni; k++ {
					v := (p+1)*100 + k
					o := rec.begin(fmt.Sprintf("p%d", p), "send", v)
					ok := send(v)
					rec.end(o, v, ok)
					run.Log("send", fmt.Sprintf("p%d %d %v", p, v, ok))
				}
			})
		}
		var received atomic.Int64
		nc := int(sc.Knob("consumers", 1))
		closeMode := sc.Knob("close_mode", 0)
		for c := 0; c < nc; c++ {
			c := c
			consWG.Add(1)
			run.Go(fmt.Sprintf("c%d", c), func() {
				defer consWG.Done()
				for {
					if closeMode == 2 && received.Load() >= int64(total) {
						return
					}
					o := rec.begin(fmt.Sprintf("c%d", c), "recv", 0)
					v, ok := recv()
					rec.end(o, v, ok)
					run.Log("recv", fmt.Sprintf("c%d %d %v", c, v, ok))
					if !ok {
						return
					}
					received.Add(1)
				}
			})
		}
		nos := int(sc.Knob("oneshot", 0))
		var osWG sync.WaitGroup
		for c := 0; c < nos; c++ {
			c := c
			osWG.Add(1)
			run.Go(fmt.Sprintf("o%d", c), func() {
				defer osWG.Done()
				o := rec.begin(fmt.Sprintf("o%d", c), "recv", 0)
				v, ok := recv()
				rec.end(o, v, ok)
				run.Log("recv1", fmt.Sprintf("o%d %d %v", c, v, ok))
				if ok {
					received.Add(1)
				}
			})
		}
		if !isMPSC && sc.Knob("grow", 0) > 0 {
			run.Go("grower", func() {
				time.Sleep(time.Duration(run.H("growat")%uint64(20000)) + 1)
				o := rec.begin("grower", "grow", 0)
				_ = q.Grow(int(sc.Knob("capacity", 2)) << uint(sc.Knob("grow", 1)))
				rec.end(o, 0, true)
			})
		}
		if closeMode == 1 {
			run.Go("closer", func() {
				time.Sleep(time.Duration(run.H("closeat")%uint64(60000)) + 1)
				doClose("closer")
			})
		}
		// producers finish (or give up because of an early close)
		waitOr := func(wg *sync.WaitGroup, d time.Duration) bool {
			ch := make(chan struct{})
			go func() { wg.Wait(); close(ch) }()
			select {
			case <-ch:
				return true
			case <-time.After(d):
				return false
			}
		}
		prodDone := waitOr(&prodWG, 5*time.Second)
		if !prodDone {
			// a producer may legitimately block only on a full, bounded queue nobody drains
			canBlock := !isMPSC && sc.Knob("extensions", 0) >= 0 && closeMode == 2 && nc == 0
			if !canBlock {
				synctest.Wait()
				pending := 0
				for _, o := range rec.ops {
					if o.Kind == "send" && o.Ret == 0 {
						pending++
					}
				}
				size := -1
				if !isMPSC {
					size = q.Size()
				}
				consumersAlive := !waitOr(&consWG, time.Nanosecond)
				if consumersAlive || size < int(sc.Knob("capacity", 2)) {
					violate("sender_stuck", qname+" blocked_sender", "%d Send calls still blocked 5 s (virtual) after the last event although consumers are receiving (queue size %d, capacity %d, extensions %d)", pending, size, sc.Knob("capacity", 2), sc.Knob("extensions", 0))
				}
			}
		}
		if closeMode == 0 {
			doClose("main")
		}
		// liveness of receivers: once producers stopped, a blocked receiver must be woken whenever an item
		// is available or the queue is closed
		time.Sleep(5 * time.Second)
		synctest.Wait()
		pendingRecv := 0
		for _, o := range rec.ops {
			if o.Kind == "recv" && o.Ret == 0 {
				pendingRecv++
			}
		}
		closed := closeOp != nil
		size := 0
		if !isMPSC {
			size = q.Size()
		}
		if pendingRecv > 0 && prodDone {
			switch {
			case closed:
				violate("receiver_not_woken_by_close", qname+" lost_wakeup close", "%d Recv calls still blocked 5 s (virtual) after Close returned", pendingRecv)
			case size > 0:
				multi := "single_receiver"
				if nc+nos >= 2 {
					multi = "several_receivers"
				}
				violate("receiver_not_woken_with_item_available", qname+" lost_wakeup item "+multi, "%d Recv calls still blocked 5 s (virtual) after the last Send although %d items are in the queue (capacity %d, one-shot receivers %d, looping consumers %d)", pendingRecv, size, sc.Knob("capacity", 2), nos, nc)
			}
		}
		// drain what is left (so that conservation can be checked), then release everything
		doClose("main-final")
		for {
			o := rec.begin("drain", "recv", 0)
			v, ok := recv()
			rec.end(o, v, ok)
			if !ok {
				break
			}
			received.Add(1)
		}
		cancelAll()
		time.Sleep(time.Second)
		synctest.Wait()
		// ---------------------------------------------------------------- history checks
		sentOK := map[int]*op{}
		var sends, recvs []*op
		for _, o := range rec.ops {
			switch o.Kind {
			case "send":
				sends = append(sends, o)
				if o.Ret != 0 && o.OK {
					sentOK[o.Val] = o
				}
			case "recv":
				if o.Ret != 0 && o.OK {
					recvs = append(recvs, o)
				}
			}
		}
		got := map[int]*op{}
		for _, o := range recvs {
			if prev, dup := got[o.Val]; dup {
				violate("item_duplicated", qname, "value %d received twice (by %s and %s)", o.Val, prev.Client, o.Client)
			}
			got[o.Val] = o
			s, ok := sentOK[o.Val]
			if !ok {
				// a Send that never returned may still have published its item
				pending := false
				for _, so := range sends {
					if so.Val == o.Val && so.Ret == 0 {
						pending = true
					}
				}
				if !pending {
					violate("item_fabricated", qname, "value %d was received by %s but never sent successfully", o.Val, o.Client)
				}
				continue
			}
			if o.Ret < s.Call {
				violate("received_before_sent", qname, "value %d received (ret %d) before its Send was invoked (%d)", o.Val, o.Ret, s.Call)
			}
		}
		for v, s := range sentOK {
			if _, ok := got[v]; !ok {
				violate("item_lost", qname, "value %d: Send by %s returned true but the item was never received, although the queue was closed and drained (received %d of %d)", v, s.Client, len(got), len(sentOK))
				break
			}
		}
		// FIFO (real-time order): send(a) wholly before send(b) => recv(b) not wholly before recv(a)
		vals := make([]int, 0, len(got))
		for v := range got {
			vals = append(vals, v)
		}
		sort.Ints(vals)
		for _, a := range vals {
			for _, b := range vals {
				sa, sb := sentOK[a], sentOK[b]
				if sa == nil || sb == nil || a == b {
					continue
				}
				sameProducer := sa.Client == sb.Client
				if isMPSC && !sameProducer {
					continue // the accumulator promises FIFO per producer only
				}
				if sa.Ret < sb.Call && got[b].Ret < got[a].Call {
					violate("fifo_order", qname, "value %d was sent (ret %d) before %d was sent (call %d) but %d was received (ret %d) before the receive of %d started (call %d)", a, sa.Ret, b, sb.Call, b, got[b].Ret, a, got[a].Call)
				}
			}
		}
		// sends after close fail; a failed receive needs a close (contexts are never cancelled before the end)
		if closeOp != nil {
			for _, s := range sends {
				if s.Call > closeOp.Ret && s.Ret != 0 && s.OK {
					violate("send_after_close_succeeded", qname, "Send(%d) invoked after Close returned reported success", s.Val)
				}
			}
		}
		for _, o := range rec.ops {
			if o.Kind == "recv" && o.Ret != 0 && !o.OK && o.Client != "drain" {
				if closeOp == nil || o.Ret < closeOp.Call {
					violate("recv_failed_without_close", qname, "Recv by %s returned false before any Close was invoked", o.Client)
				}
			}
		}
		out.Evals = len(rec.ops)
		out.NonTrivial = len(recvs) > 0
		out.Probes = run.Probes()
		out.Probes["ops"] = int64(len(rec.ops))
		out.SimTimeNs = int64(run.Elapsed())
		out.Events = run.NumEvents()
		out.Yields = run.NumYields()
		out.Digest = run.Digest()
		out.Trace = run.Events()
		if len(out.Trace) > 300 {
			out.Trace = out.Trace[:300]
		}
		var hist []string
		for _, o := range rec.ops {
			hist = append(hist, fmt.Sprintf("%s %s(%d)=%v [%d,%d]", o.Client, o.Kind, o.Val, o.OK, o.Call, o.Ret))
		}
		if len(hist) > 60 {
			hist = hist[:60]
		}
		out.Sample = hist
		if out.Violation != nil {
			out.Violation.Detail += "\nhistory: " + strings.Join(hist, "; ")
		}
	})
	if msg != "" && out.Violation == nil {
		if strings.Contains(msg, "deadlock") {
			// goroutines left blocked at the end although everything was closed and cancelled
			out.Violation = &harness.Violation{Class: "goroutines_blocked_after_close_and_cancel", Sig: "queue", Detail: msg}
		} else {
			out.Infra = "bubble: " + msg
		}
	}
	return out
}

// Props lists the checks hosted by this binary.
func Props() []*harness.Prop {
	return []*harness.Prop{
		{ID: "C22", Gen: c22Gen, Exec: c22Exec},
	}
}

package simstore

import (
	"fmt"
	"sync"
	"time"

	"github.com/openfga/openfga/internal/planner"
	"github.com/openfga/openfga/internal/verifsim/simrt"
	"github.com/openfga/openfga/pkg/storage"
	"github.com/openfga/openfga/pkg/storage/cache/keys"
)

// CacheEvent is one observed cache operation.
type CacheEvent struct {
	At    time.Duration
	Op    string // get-hit | get-miss | get-evicted | get-expired | set | set-dropped | delete
	Key   keys.Key
	Value any
	TTL   time.Duration
}

type centry struct {
	v      any
	expiry time.Time
	setAt  time.Time
}

// Cache is a map with virtual-clock TTLs and seeded evictions ("legal but unusual").
type Cache struct {
	run       *simrt.Run
	mu        sync.Mutex
	m         map[keys.Key]centry
	EvictRate float64 // probability that a Get of a present key behaves as if it had been evicted
	DropRate  float64 // probability that a Set is not admitted
	Events    []CacheEvent
	Record    bool
	OnSet     func(key keys.Key, v any, ttl time.Duration)
	OnHit     func(key keys.Key, v any)
	stopped   bool
	ControlEvictions int // evictions of changelog / invalidation records (cache-controller bookkeeping)
	nget, nhit, nset, nevict, nexpired int64
}

var _ storage.InMemoryCache[any] = (*Cache)(nil)

func NewCache(run *simrt.Run) *Cache {
	return &Cache{run: run, m: map[keys.Key]centry{}}
}

func (c *Cache) ev(op string, k keys.Key, v any, ttl time.Duration) {
	if c.Record {
		c.Events = append(c.Events, CacheEvent{At: c.run.Elapsed(), Op: op, Key: k, Value: v, TTL: ttl})
	}
}

func (c *Cache) Get(k keys.Key) any {
	c.mu.Lock()
	c.nget++
	e, ok := c.m[k]
	if !ok {
		c.ev("get-miss", k, nil, 0)
		c.mu.Unlock()
		return nil
	}
	if !e.expiry.IsZero() && !time.Now().Before(e.expiry) {
		delete(c.m, k)
		c.nexpired++
		c.ev("get-expired", k, nil, 0)
		c.mu.Unlock()
		simrt.Probe("cache_expired")
		return nil
	}
	ks := c.run.CanonAll(string(k.Bytes()))
	occ := c.run.Occ("cget|" + ks)
	if c.EvictRate > 0 && c.run.Chance(c.EvictRate, "evict", ks, occ) {
		delete(c.m, k)
		c.nevict++
		switch e.v.(type) {
		case *storage.ChangelogCacheEntry, *storage.InvalidEntityCacheEntry:
			// the cache controller's own bookkeeping lives in the same bounded cache as the data
			c.ControlEvictions++
		}
		c.ev("get-evicted", k, nil, 0)
		c.mu.Unlock()
		simrt.Probe("cache_evicted")
		return nil
	}
	c.nhit++
	c.ev("get-hit", k, e.v, 0)
	hit := c.OnHit
	c.mu.Unlock()
	simrt.Probe("cache_hit")
	if hit != nil {
		hit(k, e.v)
	}
	return e.v
}

func (c *Cache) Set(k keys.Key, v any, ttl time.Duration) {
	c.mu.Lock()
	ks := c.run.CanonAll(string(k.Bytes()))
	occ := c.run.Occ("cset|" + ks)
	if c.DropRate > 0 && c.run.Chance(c.DropRate, "drop", ks, occ) {
		c.ev("set-dropped", k, v, ttl)
		c.mu.Unlock()
		return
	}
	c.nset++
	e := centry{v: v, setAt: time.Now()}
	if ttl > 0 {
		e.expiry = e.setAt.Add(ttl)
	}
	c.m[k] = e
	c.ev("set", k, v, ttl)
	on := c.OnSet
	c.mu.Unlock()
	if on != nil {
		on(k, v, ttl)
	}
}

func (c *Cache) Delete(k keys.Key) {
	c.mu.Lock()
	delete(c.m, k)
	c.ev("delete", k, nil, 0)
	c.mu.Unlock()
}

func (c *Cache) Stop() { c.mu.Lock(); c.stopped = true; c.mu.Unlock() }

func (c *Cache) Len() int { c.mu.Lock(); defer c.mu.Unlock(); return len(c.m) }

func (c *Cache) Stats() map[string]int64 {
	c.mu.Lock()
	defer c.mu.Unlock()
	return map[string]int64{"get": c.nget, "hit": c.nhit, "set": c.nset, "evicted": c.nevict, "expired": c.nexpired}
}

// Snapshot returns the live values.
func (c *Cache) Snapshot() map[keys.Key]any {
	c.mu.Lock()
	defer c.mu.Unlock()
	m := map[keys.Key]any{}
	for k, e := range c.m {
		m[k] = e.v
	}
	return m
}

// ---------------------------------------------------------------- planner

// Strategy policies of the SimPlanner.
const (
	PlanHash    = iota // each plan key gets a hash-chosen strategy among those offered
	PlanDefault        // always "default"
	PlanFast           // always the non-default strategy when one is offered
	PlanPerCall        // hash-chosen per call (mixed assignments)
)

// Planner forces resolution strategies from the seed.
type Planner struct {
	run    *simrt.Run
	Policy int
	mu     sync.Mutex
	Chosen map[string]int
}

var _ planner.Manager = (*Planner)(nil)

func NewPlanner(run *simrt.Run, policy int) *Planner {
	return &Planner{run: run, Policy: policy, Chosen: map[string]int{}}
}

func (p *Planner) Stop() {}

func (p *Planner) GetPlanSelector(key keys.Key) planner.Selector {
	return &selector{p: p, key: key}
}

type selector struct {
	p   *Planner
	key keys.Key
}

func (s *selector) Select(resolvers map[string]*planner.PlanConfig) *planner.PlanConfig {
	names := make([]string, 0, len(resolvers))
	for n := range resolvers {
		names = append(names, n)
	}
	// sorted: a legal, replayable order
	for i := 1; i < len(names); i++ {
		for j := i; j > 0 && names[j] < names[j-1]; j-- {
			names[j], names[j-1] = names[j-1], names[j]
		}
	}
	var pick string
	switch s.p.Policy {
	case PlanDefault:
		pick = "default"
		if _, ok := resolvers[pick]; !ok {
			pick = names[0]
		}
	case PlanFast:
		pick = names[0]
		for _, n := range names {
			if n != "default" {
				pick = n
			}
		}
	case PlanPerCall:
		// the plan key contains ULIDs hashed with a per-process seed, so identity is the offered set
		// plus the occurrence number.
		id := fmt.Sprint(names)
		occ := s.p.run.Occ("plan|" + id)
		pick = names[s.p.run.Pick(len(names), "plan", id, occ)]
	default:
		id := fmt.Sprint(names)
		pick = names[s.p.run.Pick(len(names), "plan", id)]
	}
	s.p.mu.Lock()
	s.p.Chosen[pick]++
	s.p.mu.Unlock()
	simrt.Probe("strategy_" + pick)
	return resolvers[pick]
}

func (s *selector) UpdateStats(_ *planner.PlanConfig, _ time.Duration) {}

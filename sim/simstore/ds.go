// Package simstore holds the simulator's implementations of the repository's seams:
// SimDatastore (storage.OpenFGADatastore), SimCache (storage.InMemoryCache[any]) and SimPlanner
// (planner.Manager).
package simstore

import (
	"os"
	"runtime"
	"context"
	"errors"
	"fmt"
	"sort"
	"strings"
	"sync"
	"sync/atomic"
	"syscall"
	"time"

	openfgav1 "github.com/openfga/api/proto/openfga/v1"

	"github.com/openfga/openfga/internal/verifsim/simrt"
	"github.com/openfga/openfga/pkg/storage"
)

// ErrSimBudget ends a run whose real (wall-clock) cost explodes: CPU work takes no virtual time, so
// an exponential evaluation on cyclic data is never cut by the request deadline the way it would be
// in production. Such runs are skipped (counted), they are neither violations nor infrastructure.
var ErrSimBudget = errors.New("sim: wall-clock budget of the run exceeded")

// wallNow is the budget clock: the CPU time this (single-P) worker process has used. Real elapsed
// time would make a run on a loaded machine look like an exponential evaluation; time.Now() is
// virtual inside a bubble.
func wallNow() int64 {
	var ru syscall.Rusage
	if err := syscall.Getrusage(syscall.RUSAGE_SELF, &ru); err != nil {
		var tv syscall.Timeval
		_ = syscall.Gettimeofday(&tv)
		return tv.Sec*1e9 + int64(tv.Usec)*1e3
	}
	return (ru.Utime.Sec+ru.Stime.Sec)*1e9 + int64(ru.Utime.Usec+ru.Stime.Usec)*1e3
}

// ErrSimIO is the injected storage error.
var ErrSimIO = errors.New("sim: injected storage I/O error")

// ErrSimTimeout is the injected storage error in its "driver timeout" flavour.
var ErrSimTimeout = fmt.Errorf("sim: injected storage I/O error: acquire connection: %w", context.DeadlineExceeded)

// TimeoutIterErrs counts fired iterator errors of the "driver timeout" flavour.
func (d *DS) TimeoutIterErrs() int64 { return d.timeoutIterErrs.Load() }

func (d *DS) ioErr(req, sig string, occ uint64) error {
	if d.cfg.TimeoutErrs && d.run.H("errflavour", req, sig, occ)%2 == 0 {
		return ErrSimTimeout
	}
	return ErrSimIO
}

// Fault kinds (bit mask in DSConfig.Faults).
const (
	FaultOpenErr = 1 << iota // Read*/ReadChanges/... return an error
	FaultIterErr             // an iterator fails after k good items
	FaultPanic               // panic inside a storage call
	FaultIterPanic           // panic inside Iterator.Next
	FaultStall               // occasional very long latency
	FaultWriteErr
)

type DSConfig struct {
	Faults      int
	FaultRate   float64       // per-operation probability for each enabled kind
	MaxLatency  time.Duration // ordinary latency upper bound (virtual)
	StallLatency time.Duration
	IterLatency bool // also delay each Next (only safe when no sync.Mutex is held across Next; see DESIGN §1.3)
	MaxFaults   int  // cap on fired faults per run (0 = unlimited)
	// PanicOnlyIn restricts injected panics to calls whose stack contains one of these substrings
	// (e.g. "listobjects/pipeline": only goroutines of the pipeline, which promise to recover).
	PanicOnlyIn []string
	// TimeoutErrs: about half of the injected open/iterator errors wrap context.DeadlineExceeded, the
	// way a driver or connection-pool timeout does while the REQUEST's own context is alive.
	TimeoutErrs bool
	// LateCancel: with IterLatency, half of the iterators behave like a backend that checks the context
	// on entry only (a cancellation during the round trip does not stop the row from being consumed).
	LateCancel bool
}

// OpInfo describes an intercepted storage operation.
type OpInfo struct {
	Req   string // logical request id
	Op    string
	Sig   string // canonical signature (no ULIDs)
	Store string
	N     int // per-request op ordinal (1-based)
}

type DS struct {
	storage.OpenFGADatastore
	run *simrt.Run
	cfg DSConfig

	mu        sync.Mutex
	reqOps    map[string]int
	openSigs  map[string]int
	changesReads []ChangesRead
	OpenIters atomic.Int64
	timeoutIterErrs atomic.Int64
	Opened    atomic.Int64
	Stopped   atomic.Int64
	fired     map[string]int
	nFired    int
	// Hook, if set, is called at every operation before latency is applied (e.g. to cancel a client).
	Hook func(ctx context.Context, op OpInfo)
	// BoundIterators: iterators stay bound to the CLIENT REQUEST that opened them (a streaming
	// datastore that receives the request context, cf. the server's contextPropagationToDatastore
	// option): once that request's root context is done, Next fails with its error whatever context
	// Next itself is given (e.g. the server context used by a background drain). Binding to the
	// immediate context of the Read call would be wrong: the engine legitimately cancels
	// sub-contexts while iterators opened under them are still being consumed.
	BoundIterators bool
	roots          map[string]context.Context
	// Touch log for C26: which stores were touched by which request.
	touch map[string]map[string]int
	ops   int64

	wallStart int64
	// WallBudget is the real-time budget of the run in ns (default 12 s).
	WallBudget int64
	exceeded   atomic.Bool
}

// BudgetExceeded reports whether the run hit its wall-clock budget.
func (d *DS) BudgetExceeded() bool { return d.exceeded.Load() }

func NewDS(inner storage.OpenFGADatastore, run *simrt.Run, cfg DSConfig) *DS {
	if cfg.MaxLatency <= 0 {
		cfg.MaxLatency = 20 * time.Microsecond
	}
	if cfg.StallLatency <= 0 {
		cfg.StallLatency = 2 * time.Millisecond
	}
	return &DS{OpenFGADatastore: inner, run: run, cfg: cfg, reqOps: map[string]int{}, fired: map[string]int{}, touch: map[string]map[string]int{}, wallStart: wallNow(), WallBudget: 12e9}
}

func (d *DS) Inner() storage.OpenFGADatastore { return d.OpenFGADatastore }

// SetFaults changes the enabled fault kinds and rate during a run (phases of a history).
func (d *DS) SetFaults(mask int, rate float64) {
	d.mu.Lock()
	d.cfg.Faults, d.cfg.FaultRate = mask, rate
	d.mu.Unlock()
}

// BindRequest registers the root context of a client request (see BoundIterators).
func (d *DS) BindRequest(req string, root context.Context) {
	d.mu.Lock()
	if d.roots == nil {
		d.roots = map[string]context.Context{}
	}
	d.roots[req] = root
	d.mu.Unlock()
}

func (d *DS) SetIterLatency(on bool) { d.mu.Lock(); d.cfg.IterLatency = on; d.mu.Unlock() }
func (d *DS) SetLateCancel(on bool)  { d.mu.Lock(); d.cfg.LateCancel = on; d.mu.Unlock() }

func (d *DS) Fired() map[string]int {
	d.mu.Lock()
	defer d.mu.Unlock()
	m := map[string]int{}
	for k, v := range d.fired {
		m[k] = v
	}
	return m
}

func (d *DS) Ops() int64 { return atomic.LoadInt64(&d.ops) }

func (d *DS) Touched(req string) map[string]int {
	d.mu.Lock()
	defer d.mu.Unlock()
	m := map[string]int{}
	for k, v := range d.touch[req] {
		m[k] = v
	}
	return m
}

func (d *DS) fire(kind string) bool {
	d.mu.Lock()
	defer d.mu.Unlock()
	if d.cfg.MaxFaults > 0 && d.nFired >= d.cfg.MaxFaults {
		return false
	}
	d.nFired++
	d.fired[kind]++
	return true
}

// enter is called at the start of every intercepted operation: it assigns the identity, applies
// hooks, latency and "open" faults. It returns the op info and an injected error, if any.
func (d *DS) enter(ctx context.Context, op, store, sig string, isWrite bool) (OpInfo, error) {
	if d.exceeded.Load() {
		return OpInfo{}, ErrSimBudget
	}
	if atomic.LoadInt64(&d.ops)%64 == 63 && wallNow()-d.wallStart > d.WallBudget {
		d.exceeded.Store(true)
		return OpInfo{}, ErrSimBudget
	}
	req := simrt.ReqID(ctx)
	cs := d.run.Canon(store)
	sig = op + "|" + cs + "|" + sig
	d.mu.Lock()
	d.reqOps[req]++
	n := d.reqOps[req]
	if d.touch[req] == nil {
		d.touch[req] = map[string]int{}
	}
	d.touch[req][cs]++
	d.mu.Unlock()
	atomic.AddInt64(&d.ops, 1)
	info := OpInfo{Req: req, Op: op, Sig: sig, Store: cs, N: n}
	occ := d.run.Occ("op|" + req + "|" + sig)
	d.run.Log("ds", fmt.Sprintf("%s #%d %s occ=%d", req, n, sig, occ))
	if d.Hook != nil {
		d.Hook(ctx, info)
	}
	// latency
	lat := time.Duration(d.run.H("lat", req, sig, occ)%uint64(d.cfg.MaxLatency)) + 1
	if d.cfg.Faults&FaultStall != 0 && d.run.Chance(d.cfg.FaultRate, "stall", req, sig, occ) && d.fire("stall") {
		lat = d.cfg.StallLatency + time.Duration(d.run.H("stalld", req, sig, occ)%uint64(d.cfg.StallLatency))
	}
	if err := d.run.SleepUnique(ctx, lat); err != nil {
		d.run.Log("ds_ctx", req+" "+sig+" interrupted: "+err.Error())
		if os.Getenv("VSIM_STACK") == req {
			buf := make([]byte, 32<<10)
			fmt.Fprintf(os.Stderr, "VSIM_STACK %s %s: %v cause=%v\n%s\n", req, sig, err, context.Cause(ctx), buf[:runtime.Stack(buf, false)])
		}
		return info, err
	}
	kind := FaultOpenErr
	name := "open_err"
	if isWrite {
		kind, name = FaultWriteErr, "write_err"
	}
	if d.cfg.Faults&kind != 0 && d.run.Chance(d.cfg.FaultRate, "openerr", req, sig, occ) && d.fire(name) {
		d.run.Log("fault", name+" "+req+" "+sig)
		return info, d.ioErr(req, sig, occ)
	}
	// panics are injected into tuple reads only: those run on the engine's own goroutines, whose
	// panic handling is what the properties are about (a panic in the caller's goroutine is the gRPC
	// recovery interceptor's business, which the harness does not run)
	tupleRead := op == "Read" || op == "ReadUsersetTuples" || op == "ReadStartingWithUser" || op == "ReadUserTuple"
	if tupleRead && d.cfg.Faults&FaultPanic != 0 && d.run.Chance(d.cfg.FaultRate/2, "panic", req, sig, occ) && d.panicAllowedHere() && d.fire("panic") {
		d.run.Log("fault", "panic "+req+" "+sig)
		panic("sim: datastore panic in " + op)
	}
	return info, nil
}

// OpenIterSigs lists the operations whose iterators are still open ("ReadUsersetTuples:2,...").
func (d *DS) OpenIterSigs() string {
	d.mu.Lock()
	defer d.mu.Unlock()
	var parts []string
	for k, v := range d.openSigs {
		if v != 0 {
			parts = append(parts, fmt.Sprintf("%s:%d", k, v))
		}
	}
	sort.Strings(parts)
	return strings.Join(parts, ",")
}

func (d *DS) panicAllowedHere() bool {
	if len(d.cfg.PanicOnlyIn) == 0 {
		return true
	}
	buf := make([]byte, 16<<10)
	st := string(buf[:runtime.Stack(buf, false)])
	for _, p := range d.cfg.PanicOnlyIn {
		if strings.Contains(st, p) {
			return true
		}
	}
	return false
}

func refsString(refs []*openfgav1.RelationReference) string {
	var parts []string
	for _, r := range refs {
		s := r.GetType()
		if r.GetRelation() != "" {
			s += "#" + r.GetRelation()
		}
		if r.GetWildcard() != nil {
			s += ":*"
		}
		parts = append(parts, s)
	}
	return strings.Join(parts, ",")
}

func (d *DS) wrapIter(ctx context.Context, info OpInfo, it storage.TupleIterator) storage.TupleIterator {
	d.OpenIters.Add(1)
	d.Opened.Add(1)
	w := &simIter{d: d, inner: it, info: info}
	d.mu.Lock()
	if d.openSigs == nil {
		d.openSigs = map[string]int{}
	}
	d.openSigs[info.Op]++
	d.mu.Unlock()
	if d.BoundIterators {
		d.mu.Lock()
		w.openCtx = d.roots[info.Req]
		d.mu.Unlock()
	}
	occ := d.run.Occ("iter|" + info.Req + "|" + info.Sig)
	w.occ = occ
	w.lateCancel = d.cfg.LateCancel && d.run.H("latecancel", info.Req, info.Sig, occ)%2 == 0
	if d.cfg.Faults&FaultIterErr != 0 && d.run.Chance(d.cfg.FaultRate, "itererr", info.Req, info.Sig, occ) {
		w.failAt = int(d.run.H("iterpos", info.Req, info.Sig, occ)%4) + 1
	}
	if d.cfg.Faults&FaultIterPanic != 0 && d.run.Chance(d.cfg.FaultRate/2, "iterpanic", info.Req, info.Sig, occ) {
		w.panicAt = int(d.run.H("iterppos", info.Req, info.Sig, occ)%3) + 1
	}
	return w
}

type simIter struct {
	d       *DS
	inner   storage.TupleIterator
	info    OpInfo
	occ     uint64
	n       int
	failAt  int
	panicAt int
	failed  bool
	lateCancel bool
	err     error
	stopped atomic.Bool
	openCtx context.Context
}

func (s *simIter) step(ctx context.Context) error {
	s.n++
	if s.openCtx != nil {
		if err := s.openCtx.Err(); err != nil {
			simrt.Probe("bound_iterator_ctx_error")
			return err
		}
	}
	if s.failed {
		// a persistent error still costs (virtual) time, like a real round trip would
		if err := s.d.run.SleepUnique(ctx, time.Millisecond); err != nil {
			return err
		}
		return s.err
	}
	if s.d.cfg.IterLatency {
		lat := time.Duration(s.d.run.H("ilat", s.info.Req, s.info.Sig, s.occ, s.n)%uint64(s.d.cfg.MaxLatency)) + 1
		if s.lateCancel {
			// a backend that looks at the context on entry only: the round trip completes and the row is
			// consumed from the cursor even if the caller gave up meanwhile
			if err := ctx.Err(); err != nil {
				return err
			}
			_ = s.d.run.SleepUnique(nil, lat)
		} else if err := s.d.run.SleepUnique(ctx, lat); err != nil {
			return err
		}
	}
	if s.failAt > 0 && s.n == s.failAt && s.d.fire("iter_err") {
		s.failed = true
		s.d.run.Log("fault", fmt.Sprintf("iter_err %s %s pos=%d", s.info.Req, s.info.Sig, s.n))
		s.err = s.d.ioErr(s.info.Req, s.info.Sig, s.occ)
		if s.err == ErrSimTimeout {
			s.d.timeoutIterErrs.Add(1)
		}
		return s.err
	}
	if s.panicAt > 0 && s.n == s.panicAt && s.d.panicAllowedHere() && s.d.fire("iter_panic") {
		s.d.run.Log("fault", fmt.Sprintf("iter_panic %s %s pos=%d", s.info.Req, s.info.Sig, s.n))
		panic("sim: iterator panic")
	}
	return nil
}

func (s *simIter) Next(ctx context.Context) (*openfgav1.Tuple, error) {
	if err := s.step(ctx); err != nil {
		return nil, err
	}
	if s.lateCancel {
		ctx = context.WithoutCancel(ctx)
	}
	return s.inner.Next(ctx)
}

func (s *simIter) Head(ctx context.Context) (*openfgav1.Tuple, error) {
	if s.failed {
		if err := s.d.run.SleepUnique(ctx, time.Millisecond); err != nil {
			return nil, err
		}
		return nil, s.err
	}
	return s.inner.Head(ctx)
}

func (s *simIter) Stop() {
	if s.stopped.CompareAndSwap(false, true) {
		s.d.OpenIters.Add(-1)
		s.d.Stopped.Add(1)
		s.d.mu.Lock()
		s.d.openSigs[s.info.Op]--
		s.d.mu.Unlock()
	}
	s.inner.Stop()
}

func (s *simIter) IsOrdered() bool { return s.inner.IsOrdered() }

// ---------------------------------------------------------------- tuple reads

func (d *DS) Read(ctx context.Context, store string, f storage.ReadFilter, o storage.ReadOptions) (storage.TupleIterator, error) {
	info, err := d.enter(ctx, "Read", store, f.Object+"|"+f.Relation+"|"+f.User+"|"+strings.Join(f.Conditions, ","), false)
	if err != nil {
		return nil, err
	}
	it, err := d.OpenFGADatastore.Read(ctx, store, f, o)
	if err != nil {
		return nil, err
	}
	return d.wrapIter(ctx, info, it), nil
}

func (d *DS) ReadPage(ctx context.Context, store string, f storage.ReadFilter, o storage.ReadPageOptions) ([]*openfgav1.Tuple, string, error) {
	_, err := d.enter(ctx, "ReadPage", store, fmt.Sprintf("%s|%s|%s|%d|%d", f.Object, f.Relation, f.User, o.Pagination.PageSize, len(o.Pagination.From)), false)
	if err != nil {
		return nil, "", err
	}
	return d.OpenFGADatastore.ReadPage(ctx, store, f, o)
}

func (d *DS) ReadUserTuple(ctx context.Context, store string, f storage.ReadUserTupleFilter, o storage.ReadUserTupleOptions) (*openfgav1.Tuple, error) {
	_, err := d.enter(ctx, "ReadUserTuple", store, f.Object+"|"+f.Relation+"|"+f.User+"|"+strings.Join(f.Conditions, ","), false)
	if err != nil {
		return nil, err
	}
	return d.OpenFGADatastore.ReadUserTuple(ctx, store, f, o)
}

func (d *DS) ReadUsersetTuples(ctx context.Context, store string, f storage.ReadUsersetTuplesFilter, o storage.ReadUsersetTuplesOptions) (storage.TupleIterator, error) {
	info, err := d.enter(ctx, "ReadUsersetTuples", store, f.Object+"|"+f.Relation+"|"+refsString(f.AllowedUserTypeRestrictions)+"|"+strings.Join(f.Conditions, ","), false)
	if err != nil {
		return nil, err
	}
	it, err := d.OpenFGADatastore.ReadUsersetTuples(ctx, store, f, o)
	if err != nil {
		return nil, err
	}
	return d.wrapIter(ctx, info, it), nil
}

func (d *DS) ReadStartingWithUser(ctx context.Context, store string, f storage.ReadStartingWithUserFilter, o storage.ReadStartingWithUserOptions) (storage.TupleIterator, error) {
	var us []string
	for _, u := range f.UserFilter {
		s := u.GetObject()
		if u.GetRelation() != "" {
			s += "#" + u.GetRelation()
		}
		us = append(us, s)
	}
	ids := ""
	if f.ObjectIDs != nil {
		ids = strings.Join(f.ObjectIDs.Values(), ",")
	}
	info, err := d.enter(ctx, "ReadStartingWithUser", store, fmt.Sprintf("%s|%s|%s|%s|%s|%v", f.ObjectType, f.Relation, strings.Join(us, ","), ids, strings.Join(f.Conditions, ","), o.WithResultsSortedAscending), false)
	if err != nil {
		return nil, err
	}
	it, err := d.OpenFGADatastore.ReadStartingWithUser(ctx, store, f, o)
	if err != nil {
		return nil, err
	}
	return d.wrapIter(ctx, info, it), nil
}

func (d *DS) Write(ctx context.Context, store string, del storage.Deletes, w storage.Writes, opts ...storage.TupleWriteOption) error {
	var parts []string
	for _, x := range del {
		parts = append(parts, "-"+x.GetObject()+"#"+x.GetRelation()+"@"+x.GetUser())
	}
	for _, x := range w {
		parts = append(parts, "+"+x.GetObject()+"#"+x.GetRelation()+"@"+x.GetUser())
	}
	sort.Strings(parts)
	_, err := d.enter(ctx, "Write", store, strings.Join(parts, ","), true)
	if err != nil {
		return err
	}
	return d.OpenFGADatastore.Write(ctx, store, del, w, opts...)
}

func (d *DS) ReadChanges(ctx context.Context, store string, f storage.ReadChangesFilter, o storage.ReadChangesOptions) ([]*openfgav1.TupleChange, string, error) {
	entered := d.run.Elapsed()
	info, err := d.enter(ctx, "ReadChanges", store, fmt.Sprintf("%s|%d|%v|%d", f.ObjectType, o.Pagination.PageSize, o.SortDesc, len(o.Pagination.From)), false)
	if err != nil {
		return nil, "", err
	}
	ch, tok, err := d.OpenFGADatastore.ReadChanges(ctx, store, f, o)
	d.mu.Lock()
	d.changesReads = append(d.changesReads, ChangesRead{Req: info.Req, Store: info.Store, Entered: entered, Done: d.run.Elapsed(), Desc: o.SortDesc})
	d.mu.Unlock()
	return ch, tok, err
}

// ChangesRead records one completed ReadChanges call (virtual instants relative to the run's start).
type ChangesRead struct {
	Req, Store    string
	Entered, Done time.Duration
	Desc          bool
}

// ChangesReads returns the completed ReadChanges calls so far.
func (d *DS) ChangesReads() []ChangesRead {
	d.mu.Lock()
	defer d.mu.Unlock()
	return append([]ChangesRead(nil), d.changesReads...)
}

// ---------------------------------------------------------------- models / stores / assertions

func (d *DS) ReadAuthorizationModel(ctx context.Context, store, id string) (*openfgav1.AuthorizationModel, error) {
	_, err := d.enter(ctx, "ReadAuthorizationModel", store, d.run.Canon(id), false)
	if err != nil {
		return nil, err
	}
	return d.OpenFGADatastore.ReadAuthorizationModel(ctx, store, id)
}

func (d *DS) ReadAuthorizationModels(ctx context.Context, store string, o storage.ReadAuthorizationModelsOptions) ([]*openfgav1.AuthorizationModel, string, error) {
	_, err := d.enter(ctx, "ReadAuthorizationModels", store, fmt.Sprintf("%d|%d", o.Pagination.PageSize, len(o.Pagination.From)), false)
	if err != nil {
		return nil, "", err
	}
	return d.OpenFGADatastore.ReadAuthorizationModels(ctx, store, o)
}

func (d *DS) FindLatestAuthorizationModel(ctx context.Context, store string) (*openfgav1.AuthorizationModel, error) {
	_, err := d.enter(ctx, "FindLatestAuthorizationModel", store, "", false)
	if err != nil {
		return nil, err
	}
	return d.OpenFGADatastore.FindLatestAuthorizationModel(ctx, store)
}

func (d *DS) WriteAuthorizationModel(ctx context.Context, store string, m *openfgav1.AuthorizationModel) error {
	_, err := d.enter(ctx, "WriteAuthorizationModel", store, "", true)
	if err != nil {
		return err
	}
	return d.OpenFGADatastore.WriteAuthorizationModel(ctx, store, m)
}

func (d *DS) GetStore(ctx context.Context, id string) (*openfgav1.Store, error) {
	_, err := d.enter(ctx, "GetStore", id, "", false)
	if err != nil {
		return nil, err
	}
	return d.OpenFGADatastore.GetStore(ctx, id)
}

func (d *DS) ListStores(ctx context.Context, o storage.ListStoresOptions) ([]*openfgav1.Store, string, error) {
	ids := make([]string, 0, len(o.IDs))
	for _, id := range o.IDs {
		ids = append(ids, d.run.Canon(id))
	}
	_, err := d.enter(ctx, "ListStores", "", fmt.Sprintf("%v|%s|%d|%d", ids, o.Name, o.Pagination.PageSize, len(o.Pagination.From)), false)
	if err != nil {
		return nil, "", err
	}
	return d.OpenFGADatastore.ListStores(ctx, o)
}

func (d *DS) WriteAssertions(ctx context.Context, store, modelID string, a []*openfgav1.Assertion) error {
	_, err := d.enter(ctx, "WriteAssertions", store, d.run.Canon(modelID), true)
	if err != nil {
		return err
	}
	return d.OpenFGADatastore.WriteAssertions(ctx, store, modelID, a)
}

func (d *DS) ReadAssertions(ctx context.Context, store, modelID string) ([]*openfgav1.Assertion, error) {
	_, err := d.enter(ctx, "ReadAssertions", store, d.run.Canon(modelID), false)
	if err != nil {
		return nil, err
	}
	return d.OpenFGADatastore.ReadAssertions(ctx, store, modelID)
}

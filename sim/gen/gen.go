// Package gen generates bounded, swarm-style scenarios (models, tuples, requests, knobs) from one
// seed. Generation happens before a bubble is entered and uses an ordinary seeded PRNG.
package gen

import (
	"encoding/json"
	"fmt"
	"math/rand/v2"
	"os"
	"sort"

	rm "github.com/openfga/openfga/internal/verifsim/refmodel"
)

// Request is one query of a scenario.
type Request struct {
	Kind      string         `json:"kind"` // check | listobjects | listusers | expand | batch
	Obj       string         `json:"o,omitempty"`
	Rel       string         `json:"r,omitempty"`
	User      string         `json:"u,omitempty"`
	Type      string         `json:"t,omitempty"`      // listobjects: object type
	Filter    string         `json:"f,omitempty"`      // listusers: "type" or "type#rel"
	Ctx       map[string]any `json:"ctx,omitempty"`    // request context
	CtxTuples []rm.Tuple     `json:"ctxt,omitempty"`   // contextual tuples
	Items     []Request      `json:"items,omitempty"`  // batch
	Limit     int            `json:"limit,omitempty"`  // listobjects max results (0 = default)
	HC        bool           `json:"hc,omitempty"`     // HIGHER_CONSISTENCY
	Conc      int            `json:"conc,omitempty"`   // issue this many concurrent copies
	CancelAt  int            `json:"cancel,omitempty"` // cancel the client ctx at the k-th storage op (1-based; 0 = never)
	CancelNs  int64          `json:"cancel_ns,omitempty"` // cancel the client ctx this long (virtual) after the call started
	TimeoutNs int64          `json:"timeout_ns,omitempty"` // client deadline (what the timeout interceptor would set)
	Streamed  bool           `json:"streamed,omitempty"`
	ModelID   string         `json:"-"`                // run-time only: model id to send ("-" = omit; default: the scenario's model)
	Store     string         `json:"-"`                // run-time only: store id to address (default: the scenario's store)
}

// Scenario is a complete, replayable description of one simulated run.
type Scenario struct {
	Property string            `json:"property"`
	Version  int               `json:"version"`
	RunSeed  uint64            `json:"run_seed"`
	Harness  string            `json:"harness"`
	Model    *rm.Model         `json:"model"`
	Models   []*rm.Model       `json:"models,omitempty"` // further models (histories)
	Tuples   []rm.Tuple        `json:"tuples"`
	Requests []Request         `json:"requests"`
	Knobs    map[string]int64  `json:"knobs"`
	Ops      []Op              `json:"ops,omitempty"` // history properties
	Note     string            `json:"note,omitempty"`
}

// Op is one step of a history scenario (cache / write / clock families).
type Op struct {
	Kind    string     `json:"kind"`
	Store   int        `json:"store,omitempty"`
	Req     *Request   `json:"req,omitempty"`
	Writes  []rm.Tuple `json:"w,omitempty"`
	Deletes []rm.Tuple `json:"d,omitempty"`
	Dur     int64      `json:"dur,omitempty"` // clock advance (ns)
	Model   int        `json:"model,omitempty"`
	N       int        `json:"n,omitempty"`
	S       string     `json:"s,omitempty"`
}

func (s *Scenario) Knob(name string, def int64) int64 {
	if v, ok := s.Knobs[name]; ok {
		return v
	}
	return def
}

type G struct {
	R *rand.Rand
}

func New(seed uint64) *G {
	return &G{R: rand.New(rand.NewPCG(seed, seed^0x9e3779b97f4a7c15))}
}

func (g *G) Intn(n int) int {
	if n <= 0 {
		return 0
	}
	return g.R.IntN(n)
}
func (g *G) Chance(p float64) bool { return g.R.Float64() < p }
func Pick[T any](g *G, xs []T) T  { return xs[g.Intn(len(xs))] }

// ("doc2" and "org-unit" extend another type's name with a byte that sorts before ':')
var objTypeNames = []string{"group", "folder", "doc", "org", "doc2", "org-unit"}
var relNames = []string{"member", "owner", "viewer", "editor", "admin", "blocked", "can_view"}
var tuplesetNames = []string{"parent", "container"}
var userIDs = []string{"a", "b", "c"}
var objIDs = []string{"1", "2", "3"}

// ModelOpts biases the generator.
type ModelOpts struct {
	Conditions  bool
	Exclusion   bool
	MaxTypes    int
	NoWildcard  bool
	SecondUserType bool
	Wildcard    float64 // extra probability of typed-wildcard restrictions
	Recursive   float64 // bias towards self- and mutually recursive relations (cycle groups)
}

// Model generates a (probably valid) model. Validity against the real model validator and
// stratification are checked by the caller.
func (g *G) Model(o ModelOpts) *rm.Model {
	m := &rm.Model{}
	m.Types = append(m.Types, &rm.TypeDef{Name: "user"})
	userTypes := []string{"user"}
	if o.SecondUserType && g.Chance(0.3) {
		m.Types = append(m.Types, &rm.TypeDef{Name: "employee"})
		userTypes = append(userTypes, "employee")
	}
	if o.Conditions {
		fams := []string{"int_lt", "str_eq", "bool_is", "in_list", "uint_lt"}
		n := 1 + g.Intn(2)
		for i := 0; i < n; i++ {
			f := Pick(g, fams)
			m.Conds = append(m.Conds, &rm.Cond{Name: fmt.Sprintf("c%d", i), Family: f, Params: rm.FamilyParams(f)})
		}
	}
	maxT := o.MaxTypes
	if maxT <= 0 {
		maxT = 3
	}
	nTypes := 1 + g.Intn(maxT)
	names := append([]string(nil), objTypeNames...)
	g.R.Shuffle(len(names), func(i, j int) { names[i], names[j] = names[j], names[i] })
	names = names[:nTypes]
	// pass 1: declare types and relation names so that references can point anywhere (cycles)
	type relDecl struct{ typ, rel string }
	var decls []relDecl
	relsOf := map[string][]string{}
	tuplesetOf := map[string]string{}
	for _, tn := range names {
		nRel := 2 + g.Intn(3)
		rn := append([]string(nil), relNames...)
		g.R.Shuffle(len(rn), func(i, j int) { rn[i], rn[j] = rn[j], rn[i] })
		for _, r := range rn[:nRel] {
			relsOf[tn] = append(relsOf[tn], r)
			decls = append(decls, relDecl{tn, r})
		}
		if g.Chance(0.6) {
			tuplesetOf[tn] = Pick(g, tuplesetNames)
		}
	}
	condName := func() string {
		if len(m.Conds) == 0 || !g.Chance(0.5) {
			return ""
		}
		return Pick(g, m.Conds).Name
	}
	// restrictions for a direct assignment
	mkRestrictions := func(self relDecl) []rm.Restriction {
		var rs []rm.Restriction
		add := func(r rm.Restriction) {
			for _, e := range rs {
				if e == r {
					return
				}
			}
			rs = append(rs, r)
		}
		if g.Chance(0.8) {
			ut := Pick(g, userTypes)
			add(rm.Restriction{Type: ut})
			if c := condName(); c != "" {
				add(rm.Restriction{Type: ut, Cond: c})
			}
		}
		if !o.NoWildcard && g.Chance(0.25+o.Wildcard) {
			ut := Pick(g, userTypes)
			add(rm.Restriction{Type: ut, Wildcard: true, Cond: condNameMaybe(g, m, 0.3)})
		}
		if g.Chance(0.45 + o.Recursive*0.4) {
			// userset restriction; bias to self (recursive) and to member-like relations
			var d relDecl
			if g.Chance(0.35 + o.Recursive*0.3) {
				d = self
			} else {
				d = Pick(g, decls)
			}
			add(rm.Restriction{Type: d.typ, Relation: d.rel, Cond: condNameMaybe(g, m, 0.25)})
			if g.Chance(0.3) {
				// a second userset of the same type through another relation, conditioned or not
				// (`[group#admin, group#member with c]`)
				if others := relsOf[d.typ]; len(others) > 1 {
					r2 := Pick(g, others)
					if r2 != d.rel {
						add(rm.Restriction{Type: d.typ, Relation: r2, Cond: condNameMaybe(g, m, 0.6)})
					}
				}
			}
		}
		if g.Chance(0.1) {
			// concrete object type as user (e.g. [folder])
			add(rm.Restriction{Type: Pick(g, names)})
		}
		if len(rs) == 0 {
			add(rm.Restriction{Type: "user"})
		}
		return rs
	}
	var leaf func(self relDecl, res *[]rm.Restriction, depth int) *rm.Rewrite
	leaf = func(self relDecl, res *[]rm.Restriction, depth int) *rm.Rewrite {
		// direct assignment appears at most once per relation (as the DSL would produce it); a further
		// "direct" draw becomes a computed userset of a sibling relation
		direct := func() *rm.Rewrite {
			if len(*res) == 0 {
				*res = mkRestrictions(self)
				return &rm.Rewrite{Kind: rm.This}
			}
			var sib []string
			for _, r := range relsOf[self.typ] {
				if r != self.rel {
					sib = append(sib, r)
				}
			}
			if len(sib) == 0 {
				return &rm.Rewrite{Kind: rm.This}
			}
			return &rm.Rewrite{Kind: rm.Computed, Relation: Pick(g, sib)}
		}
		x := g.Intn(100)
		switch {
		case x < 45:
			return direct()
		case x < 70:
			others := relsOf[self.typ]
			r := Pick(g, others)
			if r == self.rel {
				return direct()
			}
			return &rm.Rewrite{Kind: rm.Computed, Relation: r}
		default:
			ts, ok := tuplesetOf[self.typ]
			if !ok {
				return direct()
			}
			// computed relation from some target type's relation list (chosen later to exist)
			return &rm.Rewrite{Kind: rm.TTU, Tupleset: ts, Relation: "?"}
		}
	}
	// a leaf operand (a computed userset, a tuple-to-userset, the direct assignment) is used at most
	// once per relation: `(member but not x) or member` is redundant, nobody writes it, and the
	// weighted-graph engines mishandle it (findings F29, F37), which is not what the properties are about
	usedLeaf := map[string]bool{}
	uleaf := func(self relDecl, res *[]rm.Restriction, depth int) *rm.Rewrite {
		var l *rm.Rewrite
		for try := 0; try < 6; try++ {
			l = leaf(self, res, depth)
			if k := rewriteKey(l); !usedLeaf[k] {
				usedLeaf[k] = true
				return l
			}
		}
		return l
	}
	var build func(self relDecl, res *[]rm.Restriction, depth int) *rm.Rewrite
	build = func(self relDecl, res *[]rm.Restriction, depth int) *rm.Rewrite {
		x := g.Intn(100)
		if depth >= 2 || x < 45 {
			return uleaf(self, res, depth)
		}
		// distinct operands only (the DSL lets one write `a or a`, but nobody does; the weighted graph
		// rejects some of those shapes with an internal error, which is not what the properties are about)
		distinct := func(kind rm.RewriteKind, n int) *rm.Rewrite {
			rw := &rm.Rewrite{Kind: kind}
			seen := map[string]bool{}
			for i := 0; i < n*3 && len(rw.Children) < n; i++ {
				c := build(self, res, depth+1)
				// flatten nested operators of the same kind (a or (b or a) == a or b) so that no operand
				// occurs twice anywhere in the flattened operator
				cs := []*rm.Rewrite{c}
				if c.Kind == kind && kind != rm.Difference {
					cs = c.Children
				}
				for _, c := range cs {
					k := rewriteKey(c)
					if seen[k] {
						continue
					}
					seen[k] = true
					rw.Children = append(rw.Children, c)
				}
			}
			if len(rw.Children) == 1 {
				return rw.Children[0]
			}
			return rw
		}
		switch {
		case x < 72:
			return distinct(rm.Union, 2+g.Intn(2))
		case x < 86:
			return distinct(rm.Intersection, 2+g.Intn(2))
		default:
			if !o.Exclusion {
				return uleaf(self, res, depth)
			}
			b, sub := build(self, res, depth+1), build(self, res, depth+1)
			if rewriteKey(b) == rewriteKey(sub) {
				return b
			}
			return &rm.Rewrite{Kind: rm.Difference, Children: []*rm.Rewrite{b, sub}}
		}
	}
	// tupleset target types
	tsTargets := map[string][]string{}
	for _, tn := range names {
		if _, ok := tuplesetOf[tn]; ok {
			n := 1 + g.Intn(2)
			set := map[string]bool{}
			for i := 0; i < n; i++ {
				set[Pick(g, names)] = true
			}
			if o.Recursive > 0 && g.Chance(o.Recursive) {
				set[tn] = true
			}
			for k := range set {
				tsTargets[tn] = append(tsTargets[tn], k)
			}
			sort.Strings(tsTargets[tn])
		}
	}
	for _, tn := range names {
		td := &rm.TypeDef{Name: tn}
		for _, r := range relsOf[tn] {
			var res []rm.Restriction
			for k := range usedLeaf {
				delete(usedLeaf, k)
			}
			rw := build(relDecl{tn, r}, &res, 0)
			// resolve TTU computed relation names against target types
			var fix func(rw *rm.Rewrite)
			fix = func(rw *rm.Rewrite) {
				if rw.Kind == rm.TTU && rw.Relation == "?" {
					tt := Pick(g, tsTargets[tn])
					rw.Relation = Pick(g, relsOf[tt])
					if o.Recursive > 0 && g.Chance(o.Recursive) {
						for _, t2 := range tsTargets[tn] {
							if t2 == tn {
								rw.Relation = r // parent-style recursion: `r: ... or r from parent`
							}
						}
					}
				}
				for _, c := range rw.Children {
					fix(c)
				}
			}
			fix(rw)
			if !hasThis(rw) {
				res = nil
			}
			td.Relations = append(td.Relations, &rm.Relation{Name: r, Rewrite: rw, Restrictions: res})
		}
		if ts, ok := tuplesetOf[tn]; ok {
			var res []rm.Restriction
			for _, tt := range tsTargets[tn] {
				res = append(res, rm.Restriction{Type: tt, Cond: condNameMaybe(g, m, 0.15)})
			}
			td.Relations = append(td.Relations, &rm.Relation{Name: ts, Rewrite: &rm.Rewrite{Kind: rm.This}, Restrictions: res})
		}
		m.Types = append(m.Types, td)
	}
	return m
}

func rewriteKey(rw *rm.Rewrite) string {
	s := fmt.Sprintf("%d:%s:%s(", rw.Kind, rw.Relation, rw.Tupleset)
	for _, c := range rw.Children {
		s += rewriteKey(c) + ","
	}
	return s + ")"
}

func condNameMaybe(g *G, m *rm.Model, p float64) string {
	if len(m.Conds) == 0 || !g.Chance(p) {
		return ""
	}
	return Pick(g, m.Conds).Name
}

func hasThis(rw *rm.Rewrite) bool {
	if rw.Kind == rm.This {
		return true
	}
	for _, c := range rw.Children {
		if hasThis(c) {
			return true
		}
	}
	return false
}

// Stratified reports whether no dependency cycle passes through a difference's subtrahend.
func Stratified(m *rm.Model) bool {
	type node struct{ t, r string }
	type edge struct {
		to  node
		neg bool
	}
	adj := map[node][]edge{}
	var nodes []node
	for _, t := range m.Types {
		for _, r := range t.Relations {
			n := node{t.Name, r.Name}
			nodes = append(nodes, n)
			var walk func(rw *rm.Rewrite, neg bool)
			walk = func(rw *rm.Rewrite, neg bool) {
				switch rw.Kind {
				case rm.This:
					for _, res := range r.Restrictions {
						if res.Relation != "" {
							adj[n] = append(adj[n], edge{node{res.Type, res.Relation}, neg})
						}
					}
				case rm.Computed:
					adj[n] = append(adj[n], edge{node{t.Name, rw.Relation}, neg})
				case rm.TTU:
					if ts := m.Rel(t.Name, rw.Tupleset); ts != nil {
						for _, res := range ts.Restrictions {
							adj[n] = append(adj[n], edge{node{res.Type, rw.Relation}, neg})
						}
					}
				case rm.Union, rm.Intersection:
					for _, c := range rw.Children {
						walk(c, neg)
					}
				case rm.Difference:
					walk(rw.Children[0], neg)
					walk(rw.Children[1], true)
				}
			}
			walk(r.Rewrite, false)
		}
	}
	// reachability
	reach := func(from, to node) bool {
		seen := map[node]bool{}
		st := []node{from}
		for len(st) > 0 {
			x := st[len(st)-1]
			st = st[:len(st)-1]
			if x == to {
				return true
			}
			if seen[x] {
				continue
			}
			seen[x] = true
			for _, e := range adj[x] {
				st = append(st, e.to)
			}
		}
		return false
	}
	for _, n := range nodes {
		for _, e := range adj[n] {
			if e.neg && reach(e.to, n) {
				return false
			}
		}
	}
	return true
}

// HasKind reports whether any relation's rewrite contains the given kind.
func HasKind(m *rm.Model, k rm.RewriteKind) bool {
	var walk func(rw *rm.Rewrite) bool
	walk = func(rw *rm.Rewrite) bool {
		if rw.Kind == k {
			return true
		}
		for _, c := range rw.Children {
			if walk(c) {
				return true
			}
		}
		return false
	}
	for _, t := range m.Types {
		for _, r := range t.Relations {
			if walk(r.Rewrite) {
				return true
			}
		}
	}
	return false
}

// ---------------------------------------------------------------- tuples

func (g *G) condCtx(m *rm.Model, cond string, full bool) map[string]any {
	c := m.Cond(cond)
	if c == nil {
		return nil
	}
	ctx := map[string]any{}
	ps := make([]string, 0, len(c.Params))
	for p := range c.Params {
		ps = append(ps, p)
	}
	sort.Strings(ps)
	for _, p := range ps {
		if !full && g.Chance(0.5) {
			continue
		}
		ctx[p] = g.paramValue(c.Params[p], false)
	}
	if len(ctx) == 0 {
		return nil
	}
	return ctx
}

func (g *G) paramValue(typ string, mistype bool) any {
	if mistype {
		switch typ {
		case "int", "uint":
			return true
		case "string":
			return float64(7)
		case "bool":
			return "yes"
		default:
			return "notalist"
		}
	}
	switch typ {
	case "int":
		return float64(g.Intn(4))
	case "uint":
		// mostly small naturals; now and then a value a uint parameter must refuse (negative, fractional)
		// or accept in another spelling (numeric string)
		switch g.Intn(8) {
		case 0:
			return float64(-1 - g.Intn(3))
		case 1:
			return Pick(g, []any{"2", "-3", 1.5, -1e12})
		}
		return float64(g.Intn(4))
	case "string":
		return Pick(g, []string{"p", "q"})
	case "bool":
		return g.Chance(0.5)
	default:
		n := g.Intn(3)
		l := make([]any, 0, n)
		for i := 0; i < n; i++ {
			l = append(l, Pick(g, []string{"p", "q"}))
		}
		return l
	}
}

// userFor draws a user string matching restriction r.
func (g *G) userFor(r rm.Restriction) string {
	switch {
	case r.Wildcard:
		return r.Type + ":*"
	case r.Relation != "":
		return r.Type + ":" + Pick(g, objIDs) + "#" + r.Relation
	case r.Type == "user" || r.Type == "employee":
		return r.Type + ":" + Pick(g, userIDs)
	default:
		return r.Type + ":" + Pick(g, objIDs)
	}
}

// Tuples generates up to n tuples, mostly valid, with a share of leftovers invalid for the model.
func (g *G) Tuples(m *rm.Model, n int, invalidShare float64) []rm.Tuple {
	type dr struct {
		typ string
		rel *rm.Relation
	}
	var direct, all []dr
	for _, t := range m.Types {
		for _, r := range t.Relations {
			all = append(all, dr{t.Name, r})
			if len(r.Restrictions) > 0 {
				direct = append(direct, dr{t.Name, r})
			}
		}
	}
	if len(direct) == 0 {
		return nil
	}
	seen := map[string]bool{}
	var out []rm.Tuple
	for i := 0; i < n*3 && len(out) < n; i++ {
		var t rm.Tuple
		if g.Chance(invalidShare) && g.Chance(0.4) {
			// a leftover of an earlier model that differed only in a condition: the shape of an allowed
			// tuple with the condition dropped, added or exchanged
			d := Pick(g, direct)
			r := Pick(g, d.rel.Restrictions)
			t = rm.Tuple{Obj: d.typ + ":" + Pick(g, objIDs), Rel: d.rel.Name, User: g.userFor(r)}
			if r.Cond == "" && len(m.Conds) > 0 {
				t.Cond = Pick(g, m.Conds).Name
				t.Ctx = g.condCtx(m, t.Cond, true)
			} else if r.Cond != "" && len(m.Conds) > 1 && g.Chance(0.3) {
				for _, c := range m.Conds {
					if c.Name != r.Cond {
						t.Cond = c.Name
						t.Ctx = g.condCtx(m, t.Cond, true)
					}
				}
			}
		} else if g.Chance(invalidShare) {
			d := Pick(g, all)
			t = rm.Tuple{Obj: d.typ + ":" + Pick(g, objIDs), Rel: d.rel.Name}
			// a user of an arbitrary shape
			switch g.Intn(4) {
			case 0:
				t.User = "user:" + Pick(g, userIDs)
			case 1:
				t.User = "user:*"
			case 2:
				x := Pick(g, all)
				t.User = x.typ + ":" + Pick(g, objIDs) + "#" + x.rel.Name
			default:
				x := Pick(g, all)
				t.User = x.typ + ":" + Pick(g, objIDs)
			}
			if len(m.Conds) > 0 && g.Chance(0.3) {
				t.Cond = Pick(g, m.Conds).Name
				t.Ctx = g.condCtx(m, t.Cond, g.Chance(0.5))
			}
		} else {
			d := Pick(g, direct)
			r := Pick(g, d.rel.Restrictions)
			t = rm.Tuple{Obj: d.typ + ":" + Pick(g, objIDs), Rel: d.rel.Name, User: g.userFor(r), Cond: r.Cond}
			if r.Cond != "" {
				t.Ctx = g.condCtx(m, r.Cond, g.Chance(0.4))
			}
		}
		if t.User == t.Obj+"#"+t.Rel {
			continue
		}
		if seen[t.Key()] {
			continue
		}
		seen[t.Key()] = true
		out = append(out, t)
	}
	return out
}

// ReqCtx generates a request context over all condition parameters: satisfy/falsify by value,
// omit, or mistype.
func (g *G) ReqCtx(m *rm.Model) map[string]any {
	if len(m.Conds) == 0 || g.Chance(0.15) {
		return nil
	}
	ctx := map[string]any{}
	for _, c := range m.Conds {
		ps := make([]string, 0, len(c.Params))
		for p := range c.Params {
			ps = append(ps, p)
		}
		sort.Strings(ps)
		for _, p := range ps {
			x := g.Intn(100)
			switch {
			case x < 15:
				// omit
			case x < 22:
				ctx[p] = g.paramValue(c.Params[p], true)
			default:
				ctx[p] = g.paramValue(c.Params[p], false)
			}
		}
	}
	if g.Chance(0.1) {
		ctx["unused_key"] = "z"
	}
	if len(ctx) == 0 || g.Chance(0.05) {
		// a context that is present and empty
		return map[string]any{rm.PresentButEmpty: true}
	}
	return ctx
}

// Subjects lists candidate request subjects of all three kinds.
func Subjects(m *rm.Model) (concrete, wildcards, usersets []string) {
	for _, t := range m.Types {
		ids := objIDs
		if len(t.Relations) == 0 {
			ids = userIDs
		}
		for _, id := range ids {
			concrete = append(concrete, t.Name+":"+id)
		}
		wildcards = append(wildcards, t.Name+":*")
		for _, r := range t.Relations {
			for _, id := range objIDs[:2] {
				usersets = append(usersets, t.Name+":"+id+"#"+r.Name)
			}
		}
	}
	return
}

// CheckRequests draws n check requests over all (object, relation, subject) triples.
func (g *G) CheckRequests(m *rm.Model, n int, subjKinds [3]float64) []Request {
	conc, wild, us := Subjects(m)
	var objs []struct{ o, r string }
	for _, t := range m.Types {
		for _, r := range t.Relations {
			for _, id := range objIDs {
				objs = append(objs, struct{ o, r string }{t.Name + ":" + id, r.Name})
			}
		}
	}
	if len(objs) == 0 {
		return nil
	}
	var out []Request
	for i := 0; i < n; i++ {
		or := Pick(g, objs)
		var u string
		x := g.R.Float64() * (subjKinds[0] + subjKinds[1] + subjKinds[2])
		switch {
		case x < subjKinds[0] || len(us) == 0:
			u = Pick(g, conc)
			// bias to user-like subjects
			if g.Chance(0.6) {
				u = "user:" + Pick(g, userIDs)
			}
		case x < subjKinds[0]+subjKinds[1]:
			u = Pick(g, wild)
			if g.Chance(0.6) {
				u = "user:*"
			}
		default:
			u = Pick(g, us)
		}
		out = append(out, Request{Kind: "check", Obj: or.o, Rel: or.r, User: u, Ctx: g.ReqCtx(m)})
	}
	return out
}

// ListObjectsRequests draws n ListObjects requests (type, relation, subject of all three kinds).
func (g *G) ListObjectsRequests(m *rm.Model, n int, subjKinds [3]float64) []Request {
	conc, wild, us := Subjects(m)
	var trs []struct{ t, r string }
	for _, t := range m.Types {
		for _, r := range t.Relations {
			trs = append(trs, struct{ t, r string }{t.Name, r.Name})
		}
	}
	if len(trs) == 0 {
		return nil
	}
	var out []Request
	for i := 0; i < n; i++ {
		tr := Pick(g, trs)
		var u string
		x := g.R.Float64() * (subjKinds[0] + subjKinds[1] + subjKinds[2])
		switch {
		case x < subjKinds[0] || len(us) == 0:
			u = Pick(g, conc)
			if g.Chance(0.7) {
				u = "user:" + Pick(g, userIDs)
			}
		case x < subjKinds[0]+subjKinds[1]:
			u = Pick(g, wild)
			if g.Chance(0.6) {
				u = "user:*"
			}
		default:
			u = Pick(g, us)
		}
		out = append(out, Request{Kind: "listobjects", Type: tr.t, Rel: tr.r, User: u, Ctx: g.ReqCtx(m)})
	}
	return out
}

// ListUsersRequests draws n ListUsers requests over every object, relation and user filter.
func (g *G) ListUsersRequests(m *rm.Model, n int) []Request {
	var objs []struct{ o, r string }
	var filters []string
	for _, t := range m.Types {
		filters = append(filters, t.Name)
		for _, r := range t.Relations {
			filters = append(filters, t.Name+"#"+r.Name)
			for _, id := range objIDs {
				objs = append(objs, struct{ o, r string }{t.Name + ":" + id, r.Name})
			}
		}
	}
	if len(objs) == 0 {
		return nil
	}
	var out []Request
	for i := 0; i < n; i++ {
		or := Pick(g, objs)
		f := Pick(g, filters)
		if g.Chance(0.5) {
			f = "user"
		}
		out = append(out, Request{Kind: "listusers", Obj: or.o, Rel: or.r, Filter: f, Ctx: g.ReqCtx(m)})
	}
	return out
}

// CycleTuples builds tuples that form userset cycles of 1-4 (object, relation) atoms where the
// model's type restrictions allow it, hangs a direct user tuple and a dead-end userset off the
// cycle, and returns the tuples plus the atoms ("type:id#rel") on the cycle in order.
func (g *G) CycleTuples(m *rm.Model) (tuples []rm.Tuple, atoms []string) {
	type node struct{ t, r string }
	adj := map[node][]rm.Restriction{}
	var nodes []node
	for _, t := range m.Types {
		for _, r := range t.Relations {
			n := node{t.Name, r.Name}
			for _, res := range r.Restrictions {
				if res.Relation != "" {
					adj[n] = append(adj[n], res)
				}
			}
			if len(adj[n]) > 0 {
				nodes = append(nodes, n)
			}
		}
	}
	if len(nodes) == 0 {
		return nil, nil
	}
	// random walk until we come back to a visited node
	for try := 0; try < 20; try++ {
		start := Pick(g, nodes)
		path := []node{start}
		conds := []string{}
		cur := start
		closed := -1
		for len(path) <= 4 {
			outs := adj[cur]
			if len(outs) == 0 {
				break
			}
			res := Pick(g, outs)
			nxt := node{res.Type, res.Relation}
			conds = append(conds, res.Cond)
			for i, p := range path {
				if p == nxt {
					closed = i
				}
			}
			if closed >= 0 {
				break
			}
			path = append(path, nxt)
			cur = nxt
		}
		if closed < 0 {
			continue
		}
		cyc := path[closed:]
		cconds := conds[closed:]
		// instantiate: atom i = type:id_i#rel ; tuple atom_i <- userset atom_{i+1}; last <- atom_0
		ids := make([]string, len(cyc))
		for i := range cyc {
			ids[i] = Pick(g, objIDs)
		}
		if len(cyc) == 1 {
			// self loop needs two different objects to be a proper cycle of length 2
			cyc = append(cyc, cyc[0])
			cconds = append(cconds, cconds[0])
			ids = []string{"1", "2"}
		}
		mk := func(i int) string { return cyc[i].t + ":" + ids[i] }
		for i := range cyc {
			j := (i + 1) % len(cyc)
			t := rm.Tuple{Obj: mk(i), Rel: cyc[i].r, User: mk(j) + "#" + cyc[j].r, Cond: cconds[i]}
			if t.Cond != "" {
				t.Ctx = g.condCtx(m, t.Cond, true)
			}
			if t.User == t.Obj+"#"+t.Rel {
				continue
			}
			tuples = append(tuples, t)
			atoms = append(atoms, mk(i)+"#"+cyc[i].r)
		}
		// a direct member somewhere on the cycle, and a dead-end userset on another atom
		for i := range cyc {
			rel := m.Rel(cyc[i].t, cyc[i].r)
			for _, res := range rel.Restrictions {
				if res.Relation == "" && !res.Wildcard && m.Type(res.Type) != nil && len(m.Type(res.Type).Relations) == 0 && g.Chance(0.5) {
					t := rm.Tuple{Obj: mk(i), Rel: cyc[i].r, User: res.Type + ":" + Pick(g, userIDs), Cond: res.Cond}
					if t.Cond != "" {
						t.Ctx = g.condCtx(m, t.Cond, true)
					}
					tuples = append(tuples, t)
				}
			}
			if g.Chance(0.5) {
				res := Pick(g, adj[cyc[i]])
				t := rm.Tuple{Obj: mk(i), Rel: cyc[i].r, User: res.Type + ":" + Pick(g, objIDs) + "#" + res.Relation, Cond: res.Cond}
				if t.Cond != "" {
					t.Ctx = g.condCtx(m, t.Cond, true)
				}
				if t.User != t.Obj+"#"+t.Rel {
					tuples = append(tuples, t)
				}
			}
		}
		return tuples, atoms
	}
	return nil, nil
}

// WideTuples generates data that is big in the two ways C20 names: fan-out (one user on many
// objects, many users on one object) and long userset chains, optionally closed into a long cycle.
// ids are outside the small universe of the other generators ("w<k>", "c<k>").
func (g *G) WideTuples(m *rm.Model, fan, chain int) []rm.Tuple {
	var out []rm.Tuple
	type dr struct {
		typ string
		rel *rm.Relation
	}
	var direct []dr
	for _, t := range m.Types {
		for _, r := range t.Relations {
			if len(r.Restrictions) > 0 {
				direct = append(direct, dr{t.Name, r})
			}
		}
	}
	if len(direct) == 0 {
		return nil
	}
	// fan-out
	for k := 0; k < 2; k++ {
		d := Pick(g, direct)
		for _, r := range d.rel.Restrictions {
			if r.Relation != "" || r.Wildcard {
				continue
			}
			u := r.Type + ":" + Pick(g, userIDs)
			if r.Type != "user" && r.Type != "employee" {
				u = r.Type + ":" + Pick(g, objIDs)
			}
			for i := 0; i < fan; i++ {
				t := rm.Tuple{Obj: fmt.Sprintf("%s:w%d", d.typ, i), Rel: d.rel.Name, User: u, Cond: r.Cond}
				if k == 1 {
					t = rm.Tuple{Obj: d.typ + ":" + objIDs[0], Rel: d.rel.Name, User: fmt.Sprintf("%s:w%d", r.Type, i), Cond: r.Cond}
				}
				if r.Cond != "" {
					t.Ctx = g.condCtx(m, r.Cond, true)
				}
				out = append(out, t)
			}
			break
		}
	}
	// chains through a self-referencing userset restriction
	for _, d := range direct {
		for _, r := range d.rel.Restrictions {
			if r.Relation != d.rel.Name || r.Type != d.typ || chain <= 0 {
				continue
			}
			for i := 0; i < chain; i++ {
				t := rm.Tuple{Obj: fmt.Sprintf("%s:c%d", d.typ, i), Rel: d.rel.Name, User: fmt.Sprintf("%s:c%d#%s", d.typ, i+1, d.rel.Name), Cond: r.Cond}
				if r.Cond != "" {
					t.Ctx = g.condCtx(m, r.Cond, true)
				}
				out = append(out, t)
			}
			if g.Chance(0.5) {
				// close the cycle
				t := rm.Tuple{Obj: fmt.Sprintf("%s:c%d", d.typ, chain), Rel: d.rel.Name, User: fmt.Sprintf("%s:c0#%s", d.typ, d.rel.Name), Cond: r.Cond}
				if r.Cond != "" {
					t.Ctx = g.condCtx(m, r.Cond, true)
				}
				out = append(out, t)
			}
			chain = 0
		}
	}
	return out
}

// SwapVariant returns a copy of m in which two relations of one type have exchanged their
// definitions (rewrite and type restrictions): same names everywhere, different meaning. Tupleset
// relations are left alone. Returns nil when no such pair exists.
func (g *G) SwapVariant(m *rm.Model) *rm.Model {
	data, _ := json.Marshal(m)
	var c rm.Model
	if json.Unmarshal(data, &c) != nil {
		return nil
	}
	isTS := map[string]bool{}
	for _, n := range tuplesetNames {
		isTS[n] = true
	}
	var cands [][3]int
	for ti, t := range c.Types {
		for i := 0; i < len(t.Relations); i++ {
			for j := i + 1; j < len(t.Relations); j++ {
				if !isTS[t.Relations[i].Name] && !isTS[t.Relations[j].Name] {
					cands = append(cands, [3]int{ti, i, j})
				}
			}
		}
	}
	if len(cands) == 0 {
		return nil
	}
	p := Pick(g, cands)
	a, b := c.Types[p[0]].Relations[p[1]], c.Types[p[0]].Relations[p[2]]
	a.Rewrite, b.Rewrite = b.Rewrite, a.Rewrite
	a.Restrictions, b.Restrictions = b.Restrictions, a.Restrictions
	return &c
}


// WildcardTuples returns a typed-wildcard tuple for (most of) the relations that allow one, on the
// small object universe.
func (g *G) WildcardTuples(m *rm.Model, p float64) []rm.Tuple {
	var out []rm.Tuple
	for _, t := range m.Types {
		for _, r := range t.Relations {
			for _, res := range r.Restrictions {
				if !res.Wildcard {
					continue
				}
				for _, id := range objIDs {
					if g.Chance(p) {
						tu := rm.Tuple{Obj: t.Name + ":" + id, Rel: r.Name, User: res.Type + ":*", Cond: res.Cond}
						if res.Cond != "" {
							tu.Ctx = g.condCtx(m, res.Cond, true)
						}
						out = append(out, tu)
					}
				}
			}
		}
	}
	return out
}

// GradedSets is a directed shape: one relation combines three or four operands with one set
// operator, and the operands' result sets over six to nine objects have clearly different sizes
// (an evaluator that orders operands by size, probes the smallest against the others, or stops at
// the first empty one sees every ordering of those sizes). Operands are direct relations, computed
// aliases of them or tuple-to-usersets over a one-parent tupleset.
func (g *G) GradedSets() (*rm.Model, []rm.Tuple, []Request) {
	n := 3 + g.Intn(2)
	doc := &rm.TypeDef{Name: "doc"}
	m := &rm.Model{Types: []*rm.TypeDef{{Name: "user"}, doc}}
	doc.Relations = append(doc.Relations, &rm.Relation{Name: "parent", Rewrite: &rm.Rewrite{Kind: rm.This}, Restrictions: []rm.Restriction{{Type: "doc"}}})
	var ops []*rm.Rewrite
	for i := 0; i < n; i++ {
		x := fmt.Sprintf("x%d", i)
		res := []rm.Restriction{{Type: "user"}}
		if g.Chance(0.15) {
			res = append(res, rm.Restriction{Type: "user", Wildcard: true})
		}
		doc.Relations = append(doc.Relations, &rm.Relation{Name: x, Rewrite: &rm.Rewrite{Kind: rm.This}, Restrictions: res})
		switch g.Intn(4) {
		case 0:
			p := fmt.Sprintf("p%d", i)
			doc.Relations = append(doc.Relations, &rm.Relation{Name: p, Rewrite: &rm.Rewrite{Kind: rm.Computed, Relation: x}})
			ops = append(ops, &rm.Rewrite{Kind: rm.Computed, Relation: p})
		case 1:
			ops = append(ops, &rm.Rewrite{Kind: rm.TTU, Tupleset: "parent", Relation: x})
		default:
			ops = append(ops, &rm.Rewrite{Kind: rm.Computed, Relation: x})
		}
	}
	var rw *rm.Rewrite
	switch k := g.Intn(10); {
	case k < 6:
		rw = &rm.Rewrite{Kind: rm.Intersection, Children: ops}
	case k < 8:
		rw = &rm.Rewrite{Kind: rm.Difference, Children: []*rm.Rewrite{{Kind: rm.Intersection, Children: ops[:n-1]}, ops[n-1]}}
	default:
		rw = &rm.Rewrite{Kind: rm.Intersection, Children: []*rm.Rewrite{{Kind: rm.Union, Children: ops[:2]}, ops[2], ops[n-1]}}
		if n == 3 {
			rw = &rm.Rewrite{Kind: rm.Union, Children: []*rm.Rewrite{{Kind: rm.Intersection, Children: ops[:2]}, ops[2]}}
		}
	}
	doc.Relations = append(doc.Relations, &rm.Relation{Name: "r", Rewrite: rw})
	nObj := 6 + g.Intn(4)
	dens := []float64{0.95, 0.7, 0.45, 0.2}
	g.R.Shuffle(len(dens), func(i, j int) { dens[i], dens[j] = dens[j], dens[i] })
	var tuples []rm.Tuple
	for o := 0; o < nObj; o++ {
		// every object is its own parent's child: doc:gK#parent@doc:hK, and the operand tuples of a
		// tuple-to-userset operand live on doc:hK
		tuples = append(tuples, rm.Tuple{Obj: fmt.Sprintf("doc:g%d", o), Rel: "parent", User: fmt.Sprintf("doc:h%d", o)})
	}
	for i := 0; i < n; i++ {
		on := "g"
		if ops[i].Kind == rm.TTU {
			on = "h"
		}
		for o := 0; o < nObj; o++ {
			for _, u := range []string{"a", "b"} {
				if g.Chance(dens[i]) {
					tuples = append(tuples, rm.Tuple{Obj: fmt.Sprintf("doc:%s%d", on, o), Rel: fmt.Sprintf("x%d", i), User: "user:" + u})
				}
			}
		}
		if len(m.Rel("doc", fmt.Sprintf("x%d", i)).Restrictions) > 1 && g.Chance(0.5) {
			tuples = append(tuples, rm.Tuple{Obj: fmt.Sprintf("doc:%s%d", on, g.Intn(nObj)), Rel: fmt.Sprintf("x%d", i), User: "user:*"})
		}
	}
	var reqs []Request
	for _, u := range []string{"a", "b", "c"} {
		reqs = append(reqs, Request{Kind: "listobjects", Type: "doc", Rel: "r", User: "user:" + u})
	}
	for i := 0; i < n; i++ {
		if g.Chance(0.3) {
			reqs = append(reqs, Request{Kind: "listobjects", Type: "doc", Rel: fmt.Sprintf("x%d", i), User: "user:a"})
		}
	}
	return m, tuples, reqs
}

// LayeredSameName is a directed shape: three or four object types in layers, every one defining
// relations with the SAME names ("viewer", "can_read", tuplesets "parent" and "container") but
// with rewrites of different depth, connected by tuple-to-usersets that point at deeper layers.
// A sub-problem dispatched to another type must be planned with that type's rewrite, not with
// the rewrite the request started from.
func (g *G) LayeredSameName() (*rm.Model, []rm.Tuple, []Request) {
	k := 3 + g.Intn(2)
	m := &rm.Model{Types: []*rm.TypeDef{{Name: "user"}, {Name: "team", Relations: []*rm.Relation{
		{Name: "member", Rewrite: &rm.Rewrite{Kind: rm.This}, Restrictions: []rm.Restriction{{Type: "user"}}}}}}}
	ln := func(i int) string { return fmt.Sprintf("l%d", i) }
	ttu := func(ts string) *rm.Rewrite { return &rm.Rewrite{Kind: rm.TTU, Tupleset: ts, Relation: "viewer"} }
	this := &rm.Rewrite{Kind: rm.This}
	targets := make([]map[string][]string, k)
	for i := 0; i < k; i++ {
		td := &rm.TypeDef{Name: ln(i)}
		targets[i] = map[string][]string{}
		leaf := i == k-1
		var direct []rm.Restriction
		switch g.Intn(3) {
		case 0:
			direct = []rm.Restriction{{Type: "user"}}
		case 1:
			direct = []rm.Restriction{{Type: "team", Relation: "member"}}
		default:
			direct = []rm.Restriction{{Type: "user"}, {Type: "team", Relation: "member"}}
		}
		if leaf {
			td.Relations = append(td.Relations,
				&rm.Relation{Name: "viewer", Rewrite: this, Restrictions: direct},
				&rm.Relation{Name: "can_read", Rewrite: &rm.Rewrite{Kind: rm.Computed, Relation: "viewer"}})
			m.Types = append(m.Types, td)
			continue
		}
		for _, ts := range []string{"parent", "container"} {
			n := 1 + g.Intn(2)
			set := map[string]bool{}
			for j := 0; j < n; j++ {
				set[ln(i+1+g.Intn(k-1-i))] = true
			}
			var res []rm.Restriction
			for j := i + 1; j < k; j++ {
				if set[ln(j)] {
					res = append(res, rm.Restriction{Type: ln(j)})
					targets[i][ts] = append(targets[i][ts], ln(j))
				}
			}
			td.Relations = append(td.Relations, &rm.Relation{Name: ts, Rewrite: this, Restrictions: res})
		}
		var vrw *rm.Rewrite
		var vres []rm.Restriction
		switch g.Intn(5) {
		case 0:
			vrw, vres = this, direct
		case 1:
			vrw = ttu("parent")
		case 2:
			vrw, vres = &rm.Rewrite{Kind: rm.Union, Children: []*rm.Rewrite{this, ttu("parent")}}, direct
		case 3:
			vrw = &rm.Rewrite{Kind: rm.Union, Children: []*rm.Rewrite{ttu("parent"), ttu("container")}}
		default:
			vrw = ttu("container")
		}
		var crw *rm.Rewrite
		switch g.Intn(4) {
		case 0:
			crw = &rm.Rewrite{Kind: rm.Computed, Relation: "viewer"}
		case 1:
			crw = ttu("container")
		case 2:
			crw = &rm.Rewrite{Kind: rm.Union, Children: []*rm.Rewrite{{Kind: rm.Computed, Relation: "viewer"}, ttu("container")}}
		default:
			crw = &rm.Rewrite{Kind: rm.Union, Children: []*rm.Rewrite{{Kind: rm.Computed, Relation: "viewer"}, ttu("parent"), ttu("container")}}
		}
		td.Relations = append(td.Relations,
			&rm.Relation{Name: "viewer", Rewrite: vrw, Restrictions: vres},
			&rm.Relation{Name: "can_read", Rewrite: crw})
		m.Types = append(m.Types, td)
	}
	var tuples []rm.Tuple
	seen := map[string]bool{}
	add := func(t rm.Tuple) {
		if !seen[t.Key()] {
			seen[t.Key()] = true
			tuples = append(tuples, t)
		}
	}
	for _, id := range objIDs[:2] {
		for _, u := range userIDs {
			if g.Chance(0.4) {
				add(rm.Tuple{Obj: "team:" + id, Rel: "member", User: "user:" + u})
			}
		}
	}
	for i := 0; i < k; i++ {
		for _, id := range objIDs {
			o := ln(i) + ":" + id
			for _, ts := range []string{"parent", "container"} {
				if tt := targets[i][ts]; len(tt) > 0 && g.Chance(0.75) {
					add(rm.Tuple{Obj: o, Rel: ts, User: Pick(g, tt) + ":" + Pick(g, objIDs)})
				}
			}
			for _, r := range m.Rel(ln(i), "viewer").Restrictions {
				if !g.Chance(0.35) {
					continue
				}
				if r.Relation != "" {
					add(rm.Tuple{Obj: o, Rel: "viewer", User: "team:" + Pick(g, objIDs[:2]) + "#member"})
				} else {
					add(rm.Tuple{Obj: o, Rel: "viewer", User: "user:" + Pick(g, userIDs)})
				}
			}
		}
	}
	var reqs []Request
	for i := 0; i < 12; i++ {
		l := g.Intn(k)
		if g.Chance(0.5) {
			l = 0
		}
		rel := "can_read"
		if g.Chance(0.3) {
			rel = "viewer"
		}
		reqs = append(reqs, Request{Kind: "check", Obj: ln(l) + ":" + Pick(g, objIDs), Rel: rel, User: "user:" + Pick(g, userIDs)})
	}
	return m, tuples, reqs
}

// DeepRecursive is a directed shape: self-recursive relations (a userset recursion and a
// tuple-to-userset recursion) over eight to twelve objects arranged in chains, trees and the odd
// cycle, so that the recursive and weight-two strategies read several rows per step (an iterator
// fault then lands in the middle of a set that matters) and recursion depth exceeds one level.
func (g *G) DeepRecursive() (*rm.Model, []rm.Tuple, []Request) {
	this := &rm.Rewrite{Kind: rm.This}
	group := &rm.TypeDef{Name: "group", Relations: []*rm.Relation{
		{Name: "member", Rewrite: this, Restrictions: []rm.Restriction{{Type: "user"}, {Type: "group", Relation: "member"}}}}}
	folder := &rm.TypeDef{Name: "folder"}
	m := &rm.Model{Types: []*rm.TypeDef{{Name: "user"}, group, folder}}
	folder.Relations = append(folder.Relations, &rm.Relation{Name: "parent", Rewrite: this, Restrictions: []rm.Restriction{{Type: "folder"}}})
	vres := []rm.Restriction{{Type: "user"}}
	if g.Chance(0.5) {
		vres = append(vres, rm.Restriction{Type: "group", Relation: "member"})
	}
	folder.Relations = append(folder.Relations, &rm.Relation{Name: "viewer", Restrictions: vres,
		Rewrite: &rm.Rewrite{Kind: rm.Union, Children: []*rm.Rewrite{this, {Kind: rm.TTU, Tupleset: "parent", Relation: "viewer"}}}})
	folder.Relations = append(folder.Relations,
		&rm.Relation{Name: "blocked", Rewrite: this, Restrictions: []rm.Restriction{{Type: "user"}}},
		&rm.Relation{Name: "allowed", Rewrite: this, Restrictions: []rm.Restriction{{Type: "user"}}})
	v := &rm.Rewrite{Kind: rm.Computed, Relation: "viewer"}
	switch g.Intn(3) {
	case 0:
		folder.Relations = append(folder.Relations, &rm.Relation{Name: "can_view", Rewrite: v})
	case 1:
		folder.Relations = append(folder.Relations, &rm.Relation{Name: "can_view", Rewrite: &rm.Rewrite{Kind: rm.Difference, Children: []*rm.Rewrite{v, {Kind: rm.Computed, Relation: "blocked"}}}})
	default:
		folder.Relations = append(folder.Relations, &rm.Relation{Name: "can_view", Rewrite: &rm.Rewrite{Kind: rm.Intersection, Children: []*rm.Rewrite{v, {Kind: rm.Computed, Relation: "allowed"}}}})
	}
	n := 8 + g.Intn(5)
	var tuples []rm.Tuple
	seen := map[string]bool{}
	add := func(t rm.Tuple) {
		if !seen[t.Key()] && t.Obj != rm.UserObject(t.User) {
			seen[t.Key()] = true
			tuples = append(tuples, t)
		}
	}
	cyc := g.Chance(0.25)
	for i := 0; i < n; i++ {
		// group:gi is a member of one or two groups with a smaller index (a DAG; with cyc, any index)
		for k := 0; k < 1+g.Intn(2) && i > 0; k++ {
			j := g.Intn(i)
			if cyc && g.Chance(0.3) {
				j = g.Intn(n)
			}
			add(rm.Tuple{Obj: fmt.Sprintf("group:g%d", j), Rel: "member", User: fmt.Sprintf("group:g%d#member", i)})
		}
		for k := 0; k < 1+g.Intn(2) && i > 0; k++ {
			j := g.Intn(i)
			if cyc && g.Chance(0.3) {
				j = g.Intn(n)
			}
			add(rm.Tuple{Obj: fmt.Sprintf("folder:f%d", i), Rel: "parent", User: fmt.Sprintf("folder:f%d", j)})
		}
		if g.Chance(0.3) {
			add(rm.Tuple{Obj: fmt.Sprintf("group:g%d", i), Rel: "member", User: "user:" + Pick(g, userIDs)})
		}
		if g.Chance(0.25) {
			add(rm.Tuple{Obj: fmt.Sprintf("folder:f%d", i), Rel: "viewer", User: "user:" + Pick(g, userIDs)})
		}
		if len(vres) > 1 && g.Chance(0.25) {
			add(rm.Tuple{Obj: fmt.Sprintf("folder:f%d", i), Rel: "viewer", User: fmt.Sprintf("group:g%d#member", g.Intn(n))})
		}
		if g.Chance(0.2) {
			add(rm.Tuple{Obj: fmt.Sprintf("folder:f%d", i), Rel: Pick(g, []string{"blocked", "allowed", "allowed"}), User: "user:" + Pick(g, userIDs)})
		}
	}
	var reqs []Request
	for i := 0; i < 12; i++ {
		u := "user:" + Pick(g, userIDs)
		switch g.Intn(4) {
		case 0:
			reqs = append(reqs, Request{Kind: "check", Obj: fmt.Sprintf("group:g%d", g.Intn(n)), Rel: "member", User: u})
		case 1:
			reqs = append(reqs, Request{Kind: "check", Obj: fmt.Sprintf("folder:f%d", g.Intn(n)), Rel: "viewer", User: u})
		default:
			// the deepest folders have the longest parent chains
			reqs = append(reqs, Request{Kind: "check", Obj: fmt.Sprintf("folder:f%d", n-1-g.Intn(3)), Rel: "can_view", User: u})
		}
	}
	return m, tuples, reqs
}

// Forced reports whether VSIM_FORCE_SHAPE names this directed shape (a debugging aid for aiming a
// batch of runs at one shape; unset in every registered check).
func Forced(shape string) bool { return os.Getenv("VSIM_FORCE_SHAPE") == shape }

// ShortCircuit is a directed shape: a union whose one branch answers true at once while a sibling
// branch is a sub-problem of its own that still has several rows to read (a tuple-to-userset over
// several parents, a userset with several members). The slow sibling is abandoned in mid-flight; what
// it leaves behind (cache entries, iterators, goroutines) must not be taken for an answer. Requests
// ask for the whole first and then for the abandoned sub-problems themselves, twice.
func (g *G) ShortCircuit() (*rm.Model, []rm.Tuple, []Request) {
	this := &rm.Rewrite{Kind: rm.This}
	usr := []rm.Restriction{{Type: "user"}}
	folder := &rm.TypeDef{Name: "folder", Relations: []*rm.Relation{{Name: "viewer", Rewrite: this, Restrictions: usr}}}
	if g.Chance(0.4) {
		folder.Relations[0].Restrictions = []rm.Restriction{{Type: "user"}, {Type: "group", Relation: "member"}}
	}
	group := &rm.TypeDef{Name: "group", Relations: []*rm.Relation{{Name: "member", Rewrite: this, Restrictions: usr}}}
	doc := &rm.TypeDef{Name: "doc"}
	doc.Relations = append(doc.Relations,
		&rm.Relation{Name: "parent", Rewrite: this, Restrictions: []rm.Restriction{{Type: "folder"}}},
		&rm.Relation{Name: "admin", Rewrite: this, Restrictions: usr})
	// the slow sub-problem: a bare tuple-to-userset, or one beside a direct assignment
	v := &rm.Rewrite{Kind: rm.TTU, Tupleset: "parent", Relation: "viewer"}
	if g.Chance(0.3) {
		doc.Relations = append(doc.Relations, &rm.Relation{Name: "viewer", Rewrite: &rm.Rewrite{Kind: rm.Union, Children: []*rm.Rewrite{this, v}}, Restrictions: usr})
	} else {
		doc.Relations = append(doc.Relations, &rm.Relation{Name: "viewer", Rewrite: v})
	}
	// the whole: a quick branch next to the slow one, on the same type (computed) and one type up (ttu)
	quick := &rm.Rewrite{Kind: rm.Computed, Relation: "admin"}
	doc.Relations = append(doc.Relations, &rm.Relation{Name: "can_view", Rewrite: &rm.Rewrite{Kind: rm.Union, Children: []*rm.Rewrite{quick, {Kind: rm.Computed, Relation: "viewer"}}}})
	org := &rm.TypeDef{Name: "org", Relations: []*rm.Relation{
		{Name: "item", Rewrite: this, Restrictions: []rm.Restriction{{Type: "doc"}}},
		{Name: "admin", Rewrite: this, Restrictions: usr},
		{Name: "viewer", Rewrite: &rm.Rewrite{Kind: rm.Union, Children: []*rm.Rewrite{{Kind: rm.Computed, Relation: "admin"}, {Kind: rm.TTU, Tupleset: "item", Relation: "viewer"}}}},
	}}
	m := &rm.Model{Types: []*rm.TypeDef{{Name: "user"}, group, folder, doc, org}}
	var tuples []rm.Tuple
	nf, nd := 3+g.Intn(3), 2+g.Intn(3)
	u := "user:" + Pick(g, userIDs)
	for d := 0; d < nd; d++ {
		do := fmt.Sprintf("doc:d%d", d)
		tuples = append(tuples, rm.Tuple{Obj: "org:1", Rel: "item", User: do})
		for f := 0; f < nf; f++ {
			if g.Chance(0.8) {
				tuples = append(tuples, rm.Tuple{Obj: do, Rel: "parent", User: fmt.Sprintf("folder:f%d", f)})
			}
		}
		if g.Chance(0.5) {
			tuples = append(tuples, rm.Tuple{Obj: do, Rel: "admin", User: u})
		}
	}
	for f := 0; f < nf; f++ {
		fo := fmt.Sprintf("folder:f%d", f)
		// the subject is a viewer of the LAST folders only: the slow branch finds it late
		if f >= nf-1-g.Intn(2) {
			tuples = append(tuples, rm.Tuple{Obj: fo, Rel: "viewer", User: u})
		}
		if len(folder.Relations[0].Restrictions) > 1 && g.Chance(0.4) {
			tuples = append(tuples, rm.Tuple{Obj: fo, Rel: "viewer", User: "group:1#member"})
		}
	}
	if g.Chance(0.5) {
		tuples = append(tuples, rm.Tuple{Obj: "group:1", Rel: "member", User: u})
	}
	if g.Chance(0.8) {
		tuples = append(tuples, rm.Tuple{Obj: "org:1", Rel: "admin", User: u})
	}
	var reqs []Request
	chk := func(o, r string) { reqs = append(reqs, Request{Kind: "check", Obj: o, Rel: r, User: u}) }
	for pass := 0; pass < 2; pass++ {
		chk("org:1", "viewer")
		for d := 0; d < nd; d++ {
			chk(fmt.Sprintf("doc:d%d", d), "can_view")
			chk(fmt.Sprintf("doc:d%d", d), "viewer")
		}
	}
	other := "user:" + Pick(g, userIDs)
	reqs = append(reqs, Request{Kind: "check", Obj: "org:1", Rel: "viewer", User: other}, Request{Kind: "check", Obj: "doc:d0", Rel: "viewer", User: other})
	return m, tuples, reqs
}

// MultiParent is a directed shape: a tuple-to-userset whose tupleset admits three parent types, so
// that the strategies that open one read per parent type (weight two, recursive) have several reads
// in flight at once; cancellations and storage errors aimed at the k-th storage operation then land
// between those reads.
func (g *G) MultiParent() (*rm.Model, []rm.Tuple, []Request) {
	this := &rm.Rewrite{Kind: rm.This}
	usr := []rm.Restriction{{Type: "user"}}
	m := &rm.Model{Types: []*rm.TypeDef{{Name: "user"}}}
	parents := []string{"folder", "group", "org"}
	for _, p := range parents {
		m.Types = append(m.Types, &rm.TypeDef{Name: p, Relations: []*rm.Relation{{Name: "viewer", Rewrite: this, Restrictions: usr}}})
	}
	var pres []rm.Restriction
	for _, p := range parents {
		pres = append(pres, rm.Restriction{Type: p})
	}
	doc := &rm.TypeDef{Name: "doc", Relations: []*rm.Relation{
		{Name: "parent", Rewrite: this, Restrictions: pres},
		{Name: "viewer", Rewrite: &rm.Rewrite{Kind: rm.TTU, Tupleset: "parent", Relation: "viewer"}},
		{Name: "editor", Rewrite: this, Restrictions: usr},
		{Name: "can_view", Rewrite: &rm.Rewrite{Kind: rm.Union, Children: []*rm.Rewrite{{Kind: rm.Computed, Relation: "editor"}, {Kind: rm.Computed, Relation: "viewer"}}}},
	}}
	m.Types = append(m.Types, doc)
	var tuples []rm.Tuple
	for d := 0; d < 3; d++ {
		for _, p := range parents {
			for k := 0; k < 1+g.Intn(2); k++ {
				if g.Chance(0.8) {
					tuples = append(tuples, rm.Tuple{Obj: fmt.Sprintf("doc:%d", d+1), Rel: "parent", User: fmt.Sprintf("%s:%d", p, 1+g.Intn(3))})
				}
			}
		}
		if g.Chance(0.3) {
			tuples = append(tuples, rm.Tuple{Obj: fmt.Sprintf("doc:%d", d+1), Rel: "editor", User: "user:" + Pick(g, userIDs)})
		}
	}
	seen := map[string]bool{}
	var uniq []rm.Tuple
	for _, t := range tuples {
		if !seen[t.Key()] {
			seen[t.Key()] = true
			uniq = append(uniq, t)
		}
	}
	tuples = uniq
	for _, p := range parents {
		for i := 1; i <= 3; i++ {
			if g.Chance(0.4) {
				tuples = append(tuples, rm.Tuple{Obj: fmt.Sprintf("%s:%d", p, i), Rel: "viewer", User: "user:" + Pick(g, userIDs)})
			}
		}
	}
	var reqs []Request
	for i := 0; i < 10; i++ {
		reqs = append(reqs, Request{Kind: "check", Obj: fmt.Sprintf("doc:%d", 1+g.Intn(3)), Rel: Pick(g, []string{"viewer", "viewer", "can_view"}), User: "user:" + Pick(g, userIDs)})
	}
	return m, tuples, reqs
}

// MutualUsersets is a directed shape: two or three relations on different types that are directly
// assignable to each other's usersets (group#member: [user, team#member]; team#member: [user,
// group#member]), stored as chains and cycles several hops long, and asked about with USERSET
// subjects that sit one, two or more hops away as well as with plain users.
func (g *G) MutualUsersets() (*rm.Model, []rm.Tuple, []Request) {
	this := &rm.Rewrite{Kind: rm.This}
	types := []string{"group", "team"}
	if g.Chance(0.4) {
		types = append(types, "org")
	}
	m := &rm.Model{Types: []*rm.TypeDef{{Name: "user"}}}
	for i, t := range types {
		res := []rm.Restriction{{Type: "user"}}
		for j, o := range types {
			if j != i || g.Chance(0.3) {
				res = append(res, rm.Restriction{Type: o, Relation: "member"})
			}
		}
		m.Types = append(m.Types, &rm.TypeDef{Name: t, Relations: []*rm.Relation{{Name: "member", Rewrite: this, Restrictions: res}}})
	}
	allowed := func(t, o string) bool {
		for _, r := range m.Rel(t, "member").Restrictions {
			if r.Type == o && r.Relation == "member" {
				return true
			}
		}
		return false
	}
	// a chain n0 <- n1 <- ... <- nk alternating types, the last node holding a user
	k := 3 + g.Intn(4)
	var nodes []string
	for i := 0; i <= k; i++ {
		nodes = append(nodes, fmt.Sprintf("%s:%d", types[i%len(types)], 1+i/len(types)))
	}
	var tuples []rm.Tuple
	seen := map[string]bool{}
	add := func(t rm.Tuple) {
		if !seen[t.Key()] {
			seen[t.Key()] = true
			tuples = append(tuples, t)
		}
	}
	for i := 0; i < k; i++ {
		if allowed(rm.ObjType(nodes[i]), rm.ObjType(nodes[i+1])) {
			add(rm.Tuple{Obj: nodes[i], Rel: "member", User: nodes[i+1] + "#member"})
		}
	}
	u := "user:" + Pick(g, userIDs)
	add(rm.Tuple{Obj: nodes[k], Rel: "member", User: u})
	if g.Chance(0.5) && allowed(rm.ObjType(nodes[k]), rm.ObjType(nodes[0])) {
		add(rm.Tuple{Obj: nodes[k], Rel: "member", User: nodes[0] + "#member"}) // close the cycle
	}
	for i := 0; i < 3; i++ {
		a, b := Pick(g, nodes), Pick(g, nodes)
		if a != b && allowed(rm.ObjType(a), rm.ObjType(b)) && g.Chance(0.5) {
			add(rm.Tuple{Obj: a, Rel: "member", User: b + "#member"})
		}
	}
	var reqs []Request
	for i := 0; i < 12; i++ {
		a := nodes[g.Intn(len(nodes))]
		switch g.Intn(3) {
		case 0:
			reqs = append(reqs, Request{Kind: "check", Obj: a, Rel: "member", User: "user:" + Pick(g, userIDs)})
		default:
			b := nodes[g.Intn(len(nodes))]
			reqs = append(reqs, Request{Kind: "check", Obj: a, Rel: "member", User: b + "#member"})
		}
	}
	return m, tuples, reqs
}

// RepeatedContextualTuple builds batch items that all ask the same question and all carry ONE
// contextual tuple key twice, with different condition contexts (valid input: each copy is a tuple
// of its own). Items differ only in those contexts, so any de-duplication key that looks at less
// than the whole tuple makes two of them collide. nil if the model has no conditioned userset
// restriction.
func (g *G) RepeatedContextualTuple(m *rm.Model) []Request {
	for _, td := range m.Types {
		for _, r := range td.Relations {
			for _, res := range r.Restrictions {
				if res.Cond == "" || res.Relation == "" || m.Rel(res.Type, res.Relation) == nil {
					continue
				}
				obj := td.Name + ":" + Pick(g, objIDs)
				grp := res.Type + ":" + Pick(g, objIDs)
				user := "user:" + Pick(g, userIDs)
				var items []Request
				for i := 0; i < 4; i++ {
					var cts []rm.Tuple
					for k := 0; k < 2; k++ {
						cts = append(cts, rm.Tuple{Obj: obj, Rel: r.Name, User: grp + "#" + res.Relation, Cond: res.Cond, Ctx: g.condCtx(m, res.Cond, true)})
					}
					items = append(items, Request{Kind: "check", Obj: obj, Rel: r.Name, User: user, CtxTuples: cts, Limit: 77})
				}
				return items
			}
		}
	}
	return nil
}

// WideExclusion is a directed shape: one subject in a few hundred groups whose membership is an
// exclusion over a set operation (member: ([user] or admin) but not blocked), and documents shared
// with those groups' members. The strategies that stream object ids in batches (weight two,
// recursive) then move several batches of more than a hundred ids; the default strategy does not.
func (g *G) WideExclusion() (*rm.Model, []rm.Tuple, []Request) {
	this := &rm.Rewrite{Kind: rm.This}
	usr := []rm.Restriction{{Type: "user"}}
	group := &rm.TypeDef{Name: "group", Relations: []*rm.Relation{
		{Name: "admin", Rewrite: this, Restrictions: usr},
		{Name: "blocked", Rewrite: this, Restrictions: usr},
		{Name: "member", Restrictions: usr, Rewrite: &rm.Rewrite{Kind: rm.Difference, Children: []*rm.Rewrite{
			{Kind: rm.Union, Children: []*rm.Rewrite{this, {Kind: rm.Computed, Relation: "admin"}}},
			{Kind: rm.Computed, Relation: "blocked"}}}},
	}}
	doc := &rm.TypeDef{Name: "doc", Relations: []*rm.Relation{
		{Name: "viewer", Rewrite: this, Restrictions: []rm.Restriction{{Type: "group", Relation: "member"}}}}}
	m := &rm.Model{Types: []*rm.TypeDef{{Name: "user"}, group, doc}}
	n := 210 + g.Intn(120)
	u := "user:" + Pick(g, userIDs)
	var tuples []rm.Tuple
	for i := 0; i < n; i++ {
		gi := fmt.Sprintf("group:g%03d", i)
		if g.Chance(0.85) {
			tuples = append(tuples, rm.Tuple{Obj: gi, Rel: "member", User: u})
		} else {
			tuples = append(tuples, rm.Tuple{Obj: gi, Rel: "admin", User: u})
		}
	}
	for i := 0; i < 1+g.Intn(3); i++ {
		tuples = append(tuples, rm.Tuple{Obj: fmt.Sprintf("group:g%03d", g.Intn(4)), Rel: "blocked", User: u})
	}
	seen := map[string]bool{}
	var uniq []rm.Tuple
	for _, t := range tuples {
		if !seen[t.Key()] {
			seen[t.Key()] = true
			uniq = append(uniq, t)
		}
	}
	tuples = uniq
	var reqs []Request
	for i := 0; i < 8; i++ {
		k := g.Intn(n)
		if i < 3 {
			k = g.Intn(6) // near the blocked ones
		}
		d := fmt.Sprintf("doc:d%03d", k)
		tuples = append(tuples, rm.Tuple{Obj: d, Rel: "viewer", User: fmt.Sprintf("group:g%03d#member", k)})
		reqs = append(reqs, Request{Kind: "check", Obj: d, Rel: "viewer", User: u})
	}
	seen = map[string]bool{}
	uniq = nil
	for _, t := range tuples {
		if !seen[t.Key()] {
			seen[t.Key()] = true
			uniq = append(uniq, t)
		}
	}
	return m, uniq, reqs
}

package refmodel

import (
	"fmt"
	"math"
	"strconv"
)

// CondOutcome of evaluating a tuple's condition under a request context.
type CondOutcome int

const (
	CondSat CondOutcome = iota
	CondUnsat
	CondErr // missing parameter, mistyped value, or undefined condition
)

// CELExpr returns the CEL source for a family (used to build the protobuf model).
func (c *Cond) CELExpr() string {
	switch c.Family {
	case "int_lt":
		return "x < y"
	case "str_eq":
		return "s == t"
	case "bool_is":
		return "b"
	case "in_list":
		return "v in allowed"
	case "uint_lt":
		return "n < m"
	}
	panic("unknown family " + c.Family)
}

// FamilyParams gives the declared parameters of each family.
func FamilyParams(f string) map[string]string {
	switch f {
	case "int_lt":
		return map[string]string{"x": "int", "y": "int"}
	case "str_eq":
		return map[string]string{"s": "string", "t": "string"}
	case "bool_is":
		return map[string]string{"b": "bool"}
	case "in_list":
		return map[string]string{"v": "string", "allowed": "list<string>"}
	case "uint_lt":
		return map[string]string{"n": "uint", "m": "uint"}
	}
	panic("unknown family " + f)
}

// convert implements the documented conversion of JSON-ish context values to declared types:
// int accepts integral numbers and numeric strings holding an integer; string only strings; bool only
// bools; list<string> only lists of strings.
func convert(typ string, v any) (any, bool) {
	switch typ {
	case "int":
		switch x := v.(type) {
		case float64:
			if x == math.Trunc(x) && !math.IsInf(x, 0) {
				return int64(x), true
			}
			return nil, false
		case int:
			return int64(x), true
		case int64:
			return x, true
		case string:
			f, err := strconv.ParseFloat(x, 64)
			if err != nil || f != math.Trunc(f) {
				return nil, false
			}
			return int64(f), true
		}
		return nil, false
	case "uint":
		// like int, and the number must not be negative
		x, ok := convert("int", v)
		if !ok || x.(int64) < 0 {
			return nil, false
		}
		return uint64(x.(int64)), true
	case "string":
		s, ok := v.(string)
		return s, ok
	case "bool":
		b, ok := v.(bool)
		return b, ok
	case "list<string>":
		l, ok := v.([]any)
		if !ok {
			if ls, ok2 := v.([]string); ok2 {
				return ls, true
			}
			return nil, false
		}
		out := make([]string, 0, len(l))
		for _, e := range l {
			s, ok := e.(string)
			if !ok {
				return nil, false
			}
			out = append(out, s)
		}
		return out, true
	}
	return nil, false
}

// EvalCond evaluates tuple t's condition over the request context merged with the tuple's stored
// context (stored values win). No condition => satisfied.
func (m *Model) EvalCond(t Tuple, reqCtx map[string]any) CondOutcome {
	if t.Cond == "" {
		return CondSat
	}
	c := m.Cond(t.Cond)
	if c == nil {
		return CondErr
	}
	merged := map[string]any{}
	for k, v := range reqCtx {
		merged[k] = v
	}
	for k, v := range t.Ctx {
		merged[k] = v
	}
	vals := map[string]any{}
	for p, typ := range c.Params {
		v, ok := merged[p]
		if !ok {
			return CondErr // missing parameter
		}
		cv, ok := convert(typ, v)
		if !ok {
			return CondErr
		}
		vals[p] = cv
	}
	var res bool
	switch c.Family {
	case "int_lt":
		res = vals["x"].(int64) < vals["y"].(int64)
	case "str_eq":
		res = vals["s"].(string) == vals["t"].(string)
	case "bool_is":
		res = vals["b"].(bool)
	case "uint_lt":
		res = vals["n"].(uint64) < vals["m"].(uint64)
	case "in_list":
		res = false
		for _, e := range vals["allowed"].([]string) {
			if e == vals["v"].(string) {
				res = true
			}
		}
	default:
		panic(fmt.Sprintf("family %q", c.Family))
	}
	if res {
		return CondSat
	}
	return CondUnsat
}

// Package refmodel is a small executable reference model of OpenFGA written from the documented
// semantics. It deliberately shares no code with the repository (it only reads the generated
// protobuf message types to import a model).
package refmodel

import (
	"fmt"
	"sort"
	"strings"
)

type RewriteKind int

const (
	This RewriteKind = iota
	Computed
	TTU
	Union
	Intersection
	Difference
)

type Rewrite struct {
	Kind     RewriteKind `json:"k"`
	Relation string      `json:"r,omitempty"`  // Computed: relation; TTU: computed relation
	Tupleset string      `json:"ts,omitempty"` // TTU: tupleset relation
	Children []*Rewrite  `json:"c,omitempty"`  // Union/Intersection: n; Difference: base, subtract
}

// Restriction is one entry of a relation's directly related user types.
type Restriction struct {
	Type     string `json:"t"`
	Relation string `json:"r,omitempty"`
	Wildcard bool   `json:"w,omitempty"`
	Cond     string `json:"c,omitempty"`
}

type Relation struct {
	Name         string        `json:"n"`
	Rewrite      *Rewrite      `json:"rw"`
	Restrictions []Restriction `json:"res,omitempty"`
}

type TypeDef struct {
	Name      string      `json:"n"`
	Relations []*Relation `json:"rel,omitempty"`
}

// Cond is a condition of the restricted family understood by the reference evaluator.
type Cond struct {
	Name   string            `json:"n"`
	Family string            `json:"f"`      // int_lt | str_eq | bool_is | in_list
	Params map[string]string `json:"params"` // name -> type (int,string,bool,list<string>)
}

type Model struct {
	Types []*TypeDef `json:"types"`
	Conds []*Cond    `json:"conds,omitempty"`
}

func (m *Model) Type(name string) *TypeDef {
	for _, t := range m.Types {
		if t.Name == name {
			return t
		}
	}
	return nil
}

func (m *Model) Rel(typ, rel string) *Relation {
	t := m.Type(typ)
	if t == nil {
		return nil
	}
	for _, r := range t.Relations {
		if r.Name == rel {
			return r
		}
	}
	return nil
}

func (m *Model) Cond(name string) *Cond {
	for _, c := range m.Conds {
		if c.Name == name {
			return c
		}
	}
	return nil
}

// Tuple is a relationship tuple; User is in string form (type:id, type:*, type:id#rel).
type Tuple struct {
	Obj  string         `json:"o"`
	Rel  string         `json:"r"`
	User string         `json:"u"`
	Cond string         `json:"c,omitempty"`
	Ctx  map[string]any `json:"ctx,omitempty"`
}

func (t Tuple) Key() string { return t.Obj + "#" + t.Rel + "@" + t.User }

func (t Tuple) String() string {
	s := t.Key()
	if t.Cond != "" {
		s += fmt.Sprintf("[%s %v]", t.Cond, ctxString(t.Ctx))
	}
	return s
}

func ctxString(c map[string]any) string {
	ks := make([]string, 0, len(c))
	for k := range c {
		ks = append(ks, k)
	}
	sort.Strings(ks)
	var b strings.Builder
	b.WriteByte('{')
	for i, k := range ks {
		if i > 0 {
			b.WriteByte(',')
		}
		fmt.Fprintf(&b, "%s:%v", k, c[k])
	}
	b.WriteByte('}')
	return b.String()
}

// ---- string helpers (own implementation; deliberately not pkg/tuple)

// SplitUser splits "type:id#rel" into (type, id, rel). rel is "" for objects / wildcards.
func SplitUser(u string) (typ, id, rel string) {
	obj := u
	if i := strings.IndexByte(u, '#'); i >= 0 {
		obj, rel = u[:i], u[i+1:]
	}
	if i := strings.IndexByte(obj, ':'); i >= 0 {
		typ, id = obj[:i], obj[i+1:]
	} else {
		id = obj
	}
	return
}

func ObjType(o string) string {
	if i := strings.IndexByte(o, ':'); i >= 0 {
		return o[:i]
	}
	return ""
}

func IsWildcard(u string) bool {
	_, id, rel := SplitUser(u)
	return id == "*" && rel == ""
}

func IsUserset(u string) bool { return strings.IndexByte(u, '#') >= 0 }

func UserObject(u string) string {
	if i := strings.IndexByte(u, '#'); i >= 0 {
		return u[:i]
	}
	return u
}

// ---- tupleset relations

// IsTupleset reports whether typ#rel is used as the tupleset of some TTU rewrite on typ.
func (m *Model) IsTupleset(typ, rel string) bool {
	t := m.Type(typ)
	if t == nil {
		return false
	}
	var walk func(rw *Rewrite) bool
	walk = func(rw *Rewrite) bool {
		if rw == nil {
			return false
		}
		if rw.Kind == TTU && rw.Tupleset == rel {
			return true
		}
		for _, c := range rw.Children {
			if walk(c) {
				return true
			}
		}
		return false
	}
	for _, r := range t.Relations {
		if walk(r.Rewrite) {
			return true
		}
	}
	return false
}

// ---- validity of a stored tuple for a model ("valid for read")

// ValidForRead: the tuple may contribute to evaluation under this model.
// Rules (written from the documentation): object type and relation exist; the user matches a type
// restriction of the right shape (object / wildcard / userset); the tuple's condition (or absence
// of one) is allowed by a restriction for that user type; tupleset relations take concrete objects
// only; the stored context only uses declared parameters with convertible values.
func (m *Model) ValidForRead(t Tuple) bool { return m.WhyInvalid(t, false) == "" }

// BadStoredContext: the tuple's only fault is a stored context value that does not fit its declared
// parameter (or a parameter the condition does not declare). Such a tuple cannot be written through
// the API; when one is in the store, the read-time validation of the default Check ignores it while
// the ListObjects engines evaluate its condition and fail. Both are conservative: the reference
// treats the tuple as absent and admits an error.
func (m *Model) BadStoredContext(t Tuple) bool {
	w := m.WhyInvalid(t, false)
	return w == "undeclared context parameter" || w == "mistyped context parameter"
}

// ValidForWrite additionally requires well-formedness of all parts and existing user type/relation.
func (m *Model) ValidForWrite(t Tuple) bool { return m.WhyInvalid(t, true) == "" }

func (m *Model) WhyInvalid(t Tuple, forWrite bool) string {
	ot := ObjType(t.Obj)
	rel := m.Rel(ot, t.Rel)
	if m.Type(ot) == nil {
		return "object type undefined"
	}
	if rel == nil {
		return "relation undefined"
	}
	ut, uid, urel := SplitUser(t.User)
	if forWrite {
		if uid == "" || ut == "" {
			return "malformed user"
		}
		if _, oid, _ := SplitUser(t.Obj); oid == "*" || oid == "" {
			return "malformed object"
		}
		if m.Type(ut) == nil {
			return "user type undefined"
		}
		if urel != "" && m.Rel(ut, urel) == nil {
			return "user relation undefined"
		}
		if t.User == t.Obj+"#"+t.Rel {
			// not enforced for stored tuples by the rule set of C18 except "not a userset pointing at itself"
			return "self-referencing userset"
		}
	}
	if m.IsTupleset(ot, t.Rel) {
		if uid == "*" || urel != "" {
			return "tupleset relation needs a concrete object"
		}
	}
	// shape match
	shapeOK := false
	for _, r := range rel.Restrictions {
		if r.Type != ut {
			continue
		}
		switch {
		case urel != "":
			if r.Relation == urel && !r.Wildcard {
				shapeOK = true
			}
		case uid == "*":
			if r.Wildcard {
				shapeOK = true
			}
		default:
			if !r.Wildcard && r.Relation == "" {
				shapeOK = true
			}
		}
	}
	if !shapeOK {
		return "no matching type restriction"
	}
	// condition match: documented as "the condition the matching restriction allows"
	condOK := false
	for _, r := range rel.Restrictions {
		if r.Type != ut {
			continue
		}
		same := false
		switch {
		case urel != "":
			same = r.Relation == urel && !r.Wildcard
		case uid == "*":
			same = r.Wildcard
		default:
			same = !r.Wildcard && r.Relation == ""
		}
		if same && r.Cond == t.Cond {
			condOK = true
		}
	}
	if !condOK {
		return "condition not allowed by the matching restriction"
	}
	if t.Cond != "" {
		c := m.Cond(t.Cond)
		if c == nil {
			return "undefined condition"
		}
		for k, v := range t.Ctx {
			typ, ok := c.Params[k]
			if !ok {
				return "undeclared context parameter"
			}
			if _, ok := convert(typ, v); !ok {
				return "mistyped context parameter"
			}
		}
	}
	return ""
}

// AmbiguousCondShape reports tuples where "the matching restriction" is ambiguous in practice: the
// user's shape is allowed without this condition while the condition is only allowed for another
// shape of the same user type. (Used to keep such tuples out of exact oracles; see DESIGN C18.)
func (m *Model) AmbiguousCondShape(t Tuple) bool {
	ot := ObjType(t.Obj)
	rel := m.Rel(ot, t.Rel)
	if rel == nil {
		return false
	}
	ut, uid, urel := SplitUser(t.User)
	shapeAny, condSameShape, condOtherShape := false, false, false
	for _, r := range rel.Restrictions {
		if r.Type != ut {
			continue
		}
		same := false
		switch {
		case urel != "":
			same = r.Relation == urel && !r.Wildcard
		case uid == "*":
			same = r.Wildcard
		default:
			same = !r.Wildcard && r.Relation == ""
		}
		if same {
			shapeAny = true
			if r.Cond == t.Cond {
				condSameShape = true
			}
		} else if r.Cond == t.Cond {
			condOtherShape = true
		}
	}
	return shapeAny && !condSameShape && condOtherShape
}

// ObjID returns the id part of "type:id" ("" if there is none).
func ObjID(o string) string {
	_, id, _ := SplitUser(o)
	return id
}

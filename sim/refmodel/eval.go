package refmodel

import "sort"

// K is a strong-Kleene truth value.
type K int

const (
	False K = iota
	Unknown
	True
)

func (k K) String() string { return [...]string{"false", "unknown", "true"}[k] }

// State is a store's tuple set evaluated under one model.
type State struct {
	M      *Model
	Tuples []Tuple // stored ∪ contextual, de-duplicated by key (contextual wins)
	byOR   map[string][]int
	Extra  []string // further objects of the universe (e.g. the object of a userset subject)
	// NoReflexive switches off "a userset subject is a member of itself" (diagnostic only: used to
	// tell whether an answer rests on that rule alone).
	NoReflexive bool
}

// WithExtra adds objects to the universe of candidate objects (returns s).
func (s *State) WithExtra(objs ...string) *State {
	for _, o := range objs {
		if o != "" && !IsWildcard(o) {
			s.Extra = append(s.Extra, o)
		}
	}
	return s
}

func NewState(m *Model, tuples []Tuple) *State {
	s := &State{M: m, byOR: map[string][]int{}}
	seen := map[string]int{}
	for _, t := range tuples {
		if i, ok := seen[t.Key()]; ok {
			s.Tuples[i] = t
			continue
		}
		seen[t.Key()] = len(s.Tuples)
		s.Tuples = append(s.Tuples, t)
	}
	for i, t := range s.Tuples {
		k := t.Obj + "#" + t.Rel
		s.byOR[k] = append(s.byOR[k], i)
	}
	return s
}

// Objects returns every object id string mentioned anywhere (as object or user object), sorted.
func (s *State) Objects() []string {
	set := map[string]struct{}{}
	for _, t := range s.Tuples {
		set[t.Obj] = struct{}{}
		uo := UserObject(t.User)
		if !IsWildcard(uo) {
			set[uo] = struct{}{}
		}
	}
	for _, o := range s.Extra {
		set[o] = struct{}{}
	}
	out := make([]string, 0, len(set))
	for o := range set {
		out = append(out, o)
	}
	sort.Strings(out)
	return out
}

type atom struct{ o, r string }

type evalCtx struct {
	s        *State
	subj     string
	reqCtx   map[string]any
	condMemo map[int]CondOutcome
	validMemo map[int]bool
	// AnyCondErr is set when some valid tuple's condition could not be evaluated.
	anyCondErr bool
	forced     map[int]CondOutcome
}

func (e *evalCtx) cond(i int) CondOutcome {
	if c, ok := e.condMemo[i]; ok {
		return c
	}
	if c, ok := e.forced[i]; ok {
		e.condMemo[i] = c
		return c
	}
	c := e.s.M.EvalCond(e.s.Tuples[i], e.reqCtx)
	e.condMemo[i] = c
	return c
}

func (e *evalCtx) valid(i int) bool {
	if v, ok := e.validMemo[i]; ok {
		return v
	}
	v := e.s.M.ValidForRead(e.s.Tuples[i])
	e.validMemo[i] = v
	return v
}

// mode: true = "definitely" (lower bound), false = "possibly" (upper bound)
func (e *evalCtx) condPass(i int, definite bool) bool {
	switch e.cond(i) {
	case CondSat:
		return true
	case CondErr:
		e.anyCondErr = true
		return !definite
	}
	return false
}

// evalRewrite evaluates rw for object o (relation rel) given the current approximation cur of the
// same mode and the fixed approximation other of the opposite mode.
func (e *evalCtx) evalRewrite(o, rel string, rw *Rewrite, definite bool, cur, other map[atom]bool) bool {
	switch rw.Kind {
	case This:
		for _, i := range e.s.byOR[o+"#"+rel] {
			t := e.s.Tuples[i]
			if !e.valid(i) {
				continue
			}
			u := t.User
			match := false
			switch {
			case u == e.subj:
				match = true
			case IsWildcard(u):
				ut, _, _ := SplitUser(u)
				st, sid, srel := SplitUser(e.subj)
				if st == ut && srel == "" && sid != "*" {
					match = true
				}
			case IsUserset(u):
				ut, uid, urel := SplitUser(u)
				uo := ut + ":" + uid
				if e.lookup(uo, urel, cur) {
					match = true
				}
			}
			if match && e.condPass(i, definite) {
				return true
			}
		}
		return false
	case Computed:
		return e.lookup(o, rw.Relation, cur)
	case TTU:
		for _, i := range e.s.byOR[o+"#"+rw.Tupleset] {
			t := e.s.Tuples[i]
			if !e.valid(i) {
				continue
			}
			if IsUserset(t.User) || IsWildcard(t.User) {
				continue
			}
			if e.s.M.Rel(ObjType(t.User), rw.Relation) == nil {
				continue
			}
			if e.lookup(t.User, rw.Relation, cur) && e.condPass(i, definite) {
				return true
			}
		}
		return false
	case Union:
		for _, c := range rw.Children {
			if e.evalRewrite(o, rel, c, definite, cur, other) {
				return true
			}
		}
		return false
	case Intersection:
		for _, c := range rw.Children {
			if !e.evalRewrite(o, rel, c, definite, cur, other) {
				return false
			}
		}
		return true
	case Difference:
		if !e.evalRewrite(o, rel, rw.Children[0], definite, cur, other) {
			return false
		}
		// subtrahend is evaluated in the opposite mode against the opposite approximation
		return !e.evalRewrite(o, rel, rw.Children[1], !definite, other, cur)
	}
	return false
}

func (e *evalCtx) lookup(o, r string, set map[atom]bool) bool {
	// reflexive: a userset subject is a member of itself
	if e.subj == o+"#"+r && !e.s.NoReflexive {
		return true
	}
	return set[atom{o, r}]
}

func (e *evalCtx) atoms() []atom {
	objs := e.s.Objects()
	var out []atom
	for _, o := range objs {
		td := e.s.M.Type(ObjType(o))
		if td == nil {
			continue
		}
		for _, r := range td.Relations {
			out = append(out, atom{o, r.Name})
		}
	}
	return out
}

func (e *evalCtx) lfp(definite bool, other map[atom]bool, atoms []atom) map[atom]bool {
	cur := map[atom]bool{}
	for changed := true; changed; {
		changed = false
		for _, a := range atoms {
			if cur[a] {
				continue
			}
			rel := e.s.M.Rel(ObjType(a.o), a.r)
			if rel == nil || rel.Rewrite == nil {
				continue
			}
			if e.evalRewrite(a.o, a.r, rel.Rewrite, definite, cur, other) {
				cur[a] = true
				changed = true
			}
		}
	}
	return cur
}

// Solution holds the definite and possible sets for one (subject, request context).
type Solution struct {
	T, P       map[atom]bool
	AnyCondErr bool
	subj       string
	noReflexive bool
}

// Solve computes the alternating fixpoint (well-founded model; = perfect model for stratified
// inputs) for one subject and request context. extraObjs are added to the universe.
func (s *State) Solve(subj string, reqCtx map[string]any, extraObjs ...string) *Solution {
	return s.solve(subj, reqCtx, nil, extraObjs...)
}

func (s *State) solve(subj string, reqCtx map[string]any, forced map[int]CondOutcome, extraObjs ...string) *Solution {
	e := &evalCtx{s: s, subj: subj, reqCtx: reqCtx, condMemo: map[int]CondOutcome{}, validMemo: map[int]bool{}, forced: forced}
	for i := range s.Tuples {
		if e.valid(i) && e.cond(i) == CondErr {
			e.anyCondErr = true
		}
	}
	atoms := e.atoms()
	have := map[string]bool{}
	for _, a := range atoms {
		have[a.o] = true
	}
	for _, o := range extraObjs {
		if have[o] {
			continue
		}
		have[o] = true
		if td := s.M.Type(ObjType(o)); td != nil {
			for _, r := range td.Relations {
				atoms = append(atoms, atom{o, r.Name})
			}
		}
	}
	T := map[atom]bool{}
	var P map[atom]bool
	for i := 0; i < 64; i++ {
		P2 := e.lfp(false, T, atoms)
		T2 := e.lfp(true, P2, atoms)
		if sameSet(T, T2) && P != nil && sameSet(P, P2) {
			P = P2
			break
		}
		T, P = T2, P2
	}
	return &Solution{T: T, P: P, AnyCondErr: e.anyCondErr, subj: subj, noReflexive: s.NoReflexive}
}

func sameSet(a, b map[atom]bool) bool {
	if len(a) != len(b) {
		return false
	}
	for k := range a {
		if !b[k] {
			return false
		}
	}
	return true
}

// Holds returns the Kleene value of (o, r, subject).
func (sol *Solution) Holds(o, r string) K {
	if sol.subj == o+"#"+r && !sol.noReflexive {
		return True
	}
	a := atom{o, r}
	if sol.T[a] {
		return True
	}
	if sol.P[a] {
		return Unknown
	}
	return False
}

// Check evaluates one request.
func (s *State) Check(o, r, subj string, reqCtx map[string]any) (K, bool) {
	sol := s.Solve(subj, reqCtx, o)
	return sol.Holds(o, r), sol.AnyCondErr
}

// ListObjects returns objects of type typ (among those mentioned in the data) by Kleene value.
func (s *State) ListObjects(typ, r, subj string, reqCtx map[string]any) (trueSet, unknownSet []string, anyCondErr bool) {
	sol := s.Solve(subj, reqCtx)
	for _, o := range s.Objects() {
		if ObjType(o) != typ {
			continue
		}
		switch sol.Holds(o, r) {
		case True:
			trueSet = append(trueSet, o)
		case Unknown:
			unknownSet = append(unknownSet, o)
		}
	}
	return trueSet, unknownSet, sol.AnyCondErr
}

// Unevaluable returns the indices of valid tuples whose condition cannot be evaluated under reqCtx.
func (s *State) Unevaluable(reqCtx map[string]any) []int {
	var out []int
	for i, t := range s.Tuples {
		if t.Cond != "" && ((s.M.ValidForRead(t) && s.M.EvalCond(t, reqCtx) == CondErr) || s.M.BadStoredContext(t)) {
			out = append(out, i)
		}
	}
	return out
}

// Super is the supervaluation of a query: which definite answers are consistent with SOME way of
// resolving every unevaluable condition (each independently true or false). A request whose answer
// is the same under all of them is "decided by the rest of the expression".
type Super struct {
	CanBeTrue, CanBeFalse bool
	N                     int  // number of unevaluable conditional tuples
	Approx                bool // too many to enumerate: Kleene bounds used instead
	Relevant              []int // unevaluable tuples whose resolution can change the answer
}

const maxSuper = 6

// ForEachValuation calls f with a solver for every valuation of the unevaluable conditions.
// Returns approx=true (after calling f zero times) when there are too many.
func (s *State) valuations(reqCtx map[string]any) (idx []int, vals []map[int]CondOutcome, approx bool) {
	all := s.Unevaluable(reqCtx)
	// tuples with a bad stored context count (an error is admissible) but never hold: they come last
	// and are not branched on
	var fixed []int
	for _, i := range all {
		if s.M.BadStoredContext(s.Tuples[i]) {
			fixed = append(fixed, i)
		} else {
			idx = append(idx, i)
		}
	}
	free := len(idx)
	idx = append(idx, fixed...)
	if free > maxSuper {
		return idx, nil, true
	}
	for mask := 0; mask < 1<<free; mask++ {
		f := map[int]CondOutcome{}
		for b, i := range idx[:free] {
			if mask&(1<<b) != 0 {
				f[i] = CondSat
			} else {
				f[i] = CondUnsat
			}
		}
		for _, i := range fixed {
			f[i] = CondUnsat
		}
		vals = append(vals, f)
	}
	return idx, vals, false
}

// CheckSuper evaluates one Check request under supervaluation.
func (s *State) CheckSuper(o, r, subj string, reqCtx map[string]any) Super {
	idx, vals, approx := s.valuations(reqCtx)
	out := Super{N: len(idx), Approx: approx}
	if approx {
		k, _ := s.Check(o, r, subj, reqCtx)
		out.CanBeTrue = k != False
		out.CanBeFalse = k != True
		return out
	}
	ans := make([]bool, len(vals))
	for m, f := range vals {
		sol := s.solve(subj, reqCtx, f, o)
		if sol.Holds(o, r) == True {
			out.CanBeTrue = true
			ans[m] = true
		} else {
			out.CanBeFalse = true
		}
	}
	for b, i := range idx {
		if 1<<b >= len(vals) {
			break // the tuples with a bad stored context are not branched on
		}
		for m := range vals {
			if m&(1<<b) == 0 && ans[m] != ans[m|(1<<b)] {
				out.Relevant = append(out.Relevant, i)
				break
			}
		}
	}
	return out
}

// ListObjectsSuper: must = objects true under every valuation; may = true under some valuation.
func (s *State) ListObjectsSuper(typ, r, subj string, reqCtx map[string]any) (must, may []string, n int, approx bool) {
	idx, vals, approx := s.valuations(reqCtx)
	if approx {
		t, u, _ := s.ListObjects(typ, r, subj, reqCtx)
		return t, append(append([]string(nil), t...), u...), len(idx), true
	}
	cnt := map[string]int{}
	for _, f := range vals {
		sol := s.solve(subj, reqCtx, f)
		for _, o := range s.Objects() {
			if ObjType(o) == typ && sol.Holds(o, r) == True {
				cnt[o]++
			}
		}
	}
	for _, o := range s.Objects() {
		if c := cnt[o]; c > 0 {
			may = append(may, o)
			if c == len(vals) {
				must = append(must, o)
			}
		}
	}
	return must, may, len(idx), false
}

// SwallowedBySibling reports whether every unevaluable conditional tuple shares its object#relation
// with another valid tuple of the same lookup group (userset/wildcard users, or a tupleset
// relation) whose condition is satisfied. This is the shape in which the engine's filtered iterator
// drops a condition error (known finding; see DESIGN).
func (s *State) SwallowedBySibling(reqCtx map[string]any, idx []int) bool {
	if len(idx) == 0 {
		return false
	}
	for _, i := range idx {
		t := s.Tuples[i]
		found := false
		for j, u := range s.Tuples {
			if j == i || u.Rel != t.Rel || ObjType(u.Obj) != ObjType(t.Obj) {
				continue
			}
			// forward lookup group: same object#relation; reverse lookup group (object-ordered
			// ReadStartingWithUser): same relation and object type, same user or that user type's wildcard
			sameObj := u.Obj == t.Obj
			ut, _, _ := SplitUser(t.User)
			sameUser := u.User == t.User || u.User == ut+":*" || t.User == ObjType(UserObject(u.User))+":*"
			if !sameObj && !sameUser {
				continue
			}
			if s.M.ValidForRead(u) && s.M.EvalCond(u, reqCtx) == CondSat {
				found = true
			}
		}
		if found {
			return true // one swallowed tuple cuts the whole branch below it
		}
	}
	return false
}

// DiffSubtrahendReachesCycle reports whether, starting from (o, r), evaluation can reach a
// difference whose subtrahend depends (through valid tuples, ignoring conditions and the subject)
// on a cycle of (object, relation) atoms.
func (s *State) DiffSubtrahendReachesCycle(o, r string) bool {
	type at = atom
	succ := func(a at, rw *Rewrite) []at {
		var out []at
		var walk func(rw *Rewrite)
		walk = func(rw *Rewrite) {
			switch rw.Kind {
			case This:
				for _, i := range s.byOR[a.o+"#"+a.r] {
					t := s.Tuples[i]
					if !s.M.ValidForRead(t) || !IsUserset(t.User) {
						continue
					}
					ut, uid, urel := SplitUser(t.User)
					out = append(out, at{ut + ":" + uid, urel})
				}
			case Computed:
				out = append(out, at{a.o, rw.Relation})
			case TTU:
				for _, i := range s.byOR[a.o+"#"+rw.Tupleset] {
					t := s.Tuples[i]
					if !s.M.ValidForRead(t) || IsUserset(t.User) || IsWildcard(t.User) {
						continue
					}
					if s.M.Rel(ObjType(t.User), rw.Relation) != nil {
						out = append(out, at{t.User, rw.Relation})
					}
				}
			default:
				for _, c := range rw.Children {
					walk(c)
				}
			}
		}
		walk(rw)
		return out
	}
	relOf := func(a at) *Relation { return s.M.Rel(ObjType(a.o), a.r) }
	// does a cycle lie within reach of the atoms in start?
	reachesCycle := func(start []at) bool {
		color := map[at]int{}
		var dfs func(a at) bool
		dfs = func(a at) bool {
			switch color[a] {
			case 1:
				return true
			case 2:
				return false
			}
			color[a] = 1
			if rel := relOf(a); rel != nil && rel.Rewrite != nil {
				for _, b := range succ(a, rel.Rewrite) {
					if dfs(b) {
						return true
					}
				}
			}
			color[a] = 2
			return false
		}
		for _, a := range start {
			if dfs(a) {
				return true
			}
		}
		return false
	}
	seen := map[at]bool{}
	stack := []at{{o, r}}
	for len(stack) > 0 {
		a := stack[len(stack)-1]
		stack = stack[:len(stack)-1]
		if seen[a] {
			continue
		}
		seen[a] = true
		rel := relOf(a)
		if rel == nil || rel.Rewrite == nil {
			continue
		}
		var diffs func(rw *Rewrite) bool
		diffs = func(rw *Rewrite) bool {
			if rw.Kind == Difference {
				// the subtrahend's own dependencies, evaluated at atom a; the atom a itself is on the
				// resolution path already (visited), so returning to it is a cycle too.
				sub := succ(a, rw.Children[1])
				col := []at{}
				col = append(col, sub...)
				if reachesCycle(col) {
					return true
				}
				for _, b := range sub {
					if b == a {
						return true
					}
				}
			}
			for _, c := range rw.Children {
				if diffs(c) {
					return true
				}
			}
			return false
		}
		if diffs(rel.Rewrite) {
			return true
		}
		stack = append(stack, succ(a, rel.Rewrite)...)
	}
	return false
}

// ShadowedSibling reports the shape of known finding F10: some (object, relation) has two valid
// tuples whose users both match the subject (the subject itself and its type's wildcard, or a
// stored and a contextual tuple), one with a condition that is not satisfied and one that is
// satisfied. The engine's object-ordered merge de-duplicates by object id before conditions are
// evaluated, so the unsatisfied tuple can shadow the satisfied one.
func (s *State) ShadowedSibling(subj string, reqCtx map[string]any) bool {
	st, sid, srel := SplitUser(subj)
	if srel != "" || sid == "*" {
		return false
	}
	wild := st + ":*"
	for _, idxs := range s.byOR {
		// the de-duplication keeps ONE of the tuples: whenever two of them would be treated
		// differently (satisfied / to be skipped / failing to evaluate), which one survives changes the
		// outcome — a lost grant, or a lost evaluation error
		sat, skip, fails := false, false, false
		for _, i := range idxs {
			t := s.Tuples[i]
			if t.User != subj && t.User != wild {
				continue
			}
			switch {
			case !s.M.ValidForRead(t):
				skip = true
			case s.M.EvalCond(t, reqCtx) == CondSat:
				sat = true
			case s.M.EvalCond(t, reqCtx) == CondErr:
				fails = true
			default:
				skip = true
			}
		}
		if (sat && (skip || fails)) || (skip && fails) {
			return true
		}
	}
	return false
}

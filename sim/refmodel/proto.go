package refmodel

import (
	"fmt"
	"sort"

	openfgav1 "github.com/openfga/api/proto/openfga/v1"
	"google.golang.org/protobuf/types/known/structpb"
)

// ToProto renders the IR as an authorization model message (schema 1.1).
func (m *Model) ToProto() *openfgav1.AuthorizationModel {
	out := &openfgav1.AuthorizationModel{SchemaVersion: "1.1"}
	for _, t := range m.Types {
		td := &openfgav1.TypeDefinition{Type: t.Name}
		if len(t.Relations) > 0 {
			td.Relations = map[string]*openfgav1.Userset{}
			td.Metadata = &openfgav1.Metadata{Relations: map[string]*openfgav1.RelationMetadata{}}
		}
		for _, r := range t.Relations {
			td.Relations[r.Name] = rewriteToProto(r.Rewrite)
			md := &openfgav1.RelationMetadata{}
			for _, res := range r.Restrictions {
				ref := &openfgav1.RelationReference{Type: res.Type, Condition: res.Cond}
				if res.Wildcard {
					ref.RelationOrWildcard = &openfgav1.RelationReference_Wildcard{Wildcard: &openfgav1.Wildcard{}}
				} else if res.Relation != "" {
					ref.RelationOrWildcard = &openfgav1.RelationReference_Relation{Relation: res.Relation}
				}
				md.DirectlyRelatedUserTypes = append(md.DirectlyRelatedUserTypes, ref)
			}
			td.Metadata.Relations[r.Name] = md
		}
		out.TypeDefinitions = append(out.TypeDefinitions, td)
	}
	if len(m.Conds) > 0 {
		out.Conditions = map[string]*openfgav1.Condition{}
		for _, c := range m.Conds {
			pc := &openfgav1.Condition{Name: c.Name, Expression: c.CELExpr(), Parameters: map[string]*openfgav1.ConditionParamTypeRef{}}
			for p, typ := range c.Params {
				pc.Parameters[p] = paramType(typ)
			}
			out.Conditions[c.Name] = pc
		}
	}
	return out
}

func paramType(t string) *openfgav1.ConditionParamTypeRef {
	switch t {
	case "int":
		return &openfgav1.ConditionParamTypeRef{TypeName: openfgav1.ConditionParamTypeRef_TYPE_NAME_INT}
	case "uint":
		return &openfgav1.ConditionParamTypeRef{TypeName: openfgav1.ConditionParamTypeRef_TYPE_NAME_UINT}
	case "string":
		return &openfgav1.ConditionParamTypeRef{TypeName: openfgav1.ConditionParamTypeRef_TYPE_NAME_STRING}
	case "bool":
		return &openfgav1.ConditionParamTypeRef{TypeName: openfgav1.ConditionParamTypeRef_TYPE_NAME_BOOL}
	case "list<string>":
		return &openfgav1.ConditionParamTypeRef{TypeName: openfgav1.ConditionParamTypeRef_TYPE_NAME_LIST,
			GenericTypes: []*openfgav1.ConditionParamTypeRef{{TypeName: openfgav1.ConditionParamTypeRef_TYPE_NAME_STRING}}}
	}
	panic("param type " + t)
}

func rewriteToProto(rw *Rewrite) *openfgav1.Userset {
	switch rw.Kind {
	case This:
		return &openfgav1.Userset{Userset: &openfgav1.Userset_This{This: &openfgav1.DirectUserset{}}}
	case Computed:
		return &openfgav1.Userset{Userset: &openfgav1.Userset_ComputedUserset{ComputedUserset: &openfgav1.ObjectRelation{Relation: rw.Relation}}}
	case TTU:
		return &openfgav1.Userset{Userset: &openfgav1.Userset_TupleToUserset{TupleToUserset: &openfgav1.TupleToUserset{
			Tupleset:        &openfgav1.ObjectRelation{Relation: rw.Tupleset},
			ComputedUserset: &openfgav1.ObjectRelation{Relation: rw.Relation},
		}}}
	case Union, Intersection:
		var ch []*openfgav1.Userset
		for _, c := range rw.Children {
			ch = append(ch, rewriteToProto(c))
		}
		if rw.Kind == Union {
			return &openfgav1.Userset{Userset: &openfgav1.Userset_Union{Union: &openfgav1.Usersets{Child: ch}}}
		}
		return &openfgav1.Userset{Userset: &openfgav1.Userset_Intersection{Intersection: &openfgav1.Usersets{Child: ch}}}
	case Difference:
		return &openfgav1.Userset{Userset: &openfgav1.Userset_Difference{Difference: &openfgav1.Difference{
			Base: rewriteToProto(rw.Children[0]), Subtract: rewriteToProto(rw.Children[1])}}}
	}
	panic("rewrite kind")
}

// FromProto imports a model. Conditions outside the known families get Family "opaque"
// (CondErr on evaluation is then NOT meaningful; callers must skip such models for condition tests).
func FromProto(pm *openfgav1.AuthorizationModel) (*Model, error) {
	m := &Model{}
	for _, td := range pm.GetTypeDefinitions() {
		t := &TypeDef{Name: td.GetType()}
		names := make([]string, 0, len(td.GetRelations()))
		for n := range td.GetRelations() {
			names = append(names, n)
		}
		sort.Strings(names)
		for _, n := range names {
			rw, err := rewriteFromProto(td.GetRelations()[n])
			if err != nil {
				return nil, err
			}
			r := &Relation{Name: n, Rewrite: rw}
			for _, ref := range td.GetMetadata().GetRelations()[n].GetDirectlyRelatedUserTypes() {
				r.Restrictions = append(r.Restrictions, Restriction{
					Type: ref.GetType(), Relation: ref.GetRelation(), Wildcard: ref.GetWildcard() != nil, Cond: ref.GetCondition()})
			}
			t.Relations = append(t.Relations, r)
		}
		m.Types = append(m.Types, t)
	}
	cn := make([]string, 0)
	for n := range pm.GetConditions() {
		cn = append(cn, n)
	}
	sort.Strings(cn)
	for _, n := range cn {
		pc := pm.GetConditions()[n]
		c := &Cond{Name: n, Family: "opaque", Params: map[string]string{}}
		for _, f := range []string{"int_lt", "str_eq", "bool_is", "in_list", "uint_lt"} {
			tmp := &Cond{Family: f}
			if tmp.CELExpr() == pc.GetExpression() {
				c.Family = f
				c.Params = FamilyParams(f)
			}
		}
		m.Conds = append(m.Conds, c)
	}
	return m, nil
}

func rewriteFromProto(u *openfgav1.Userset) (*Rewrite, error) {
	switch x := u.GetUserset().(type) {
	case *openfgav1.Userset_This:
		return &Rewrite{Kind: This}, nil
	case *openfgav1.Userset_ComputedUserset:
		return &Rewrite{Kind: Computed, Relation: x.ComputedUserset.GetRelation()}, nil
	case *openfgav1.Userset_TupleToUserset:
		return &Rewrite{Kind: TTU, Tupleset: x.TupleToUserset.GetTupleset().GetRelation(), Relation: x.TupleToUserset.GetComputedUserset().GetRelation()}, nil
	case *openfgav1.Userset_Union:
		r := &Rewrite{Kind: Union}
		for _, c := range x.Union.GetChild() {
			cr, err := rewriteFromProto(c)
			if err != nil {
				return nil, err
			}
			r.Children = append(r.Children, cr)
		}
		return r, nil
	case *openfgav1.Userset_Intersection:
		r := &Rewrite{Kind: Intersection}
		for _, c := range x.Intersection.GetChild() {
			cr, err := rewriteFromProto(c)
			if err != nil {
				return nil, err
			}
			r.Children = append(r.Children, cr)
		}
		return r, nil
	case *openfgav1.Userset_Difference:
		b, err := rewriteFromProto(x.Difference.GetBase())
		if err != nil {
			return nil, err
		}
		s, err := rewriteFromProto(x.Difference.GetSubtract())
		if err != nil {
			return nil, err
		}
		return &Rewrite{Kind: Difference, Children: []*Rewrite{b, s}}, nil
	}
	return nil, fmt.Errorf("unsupported rewrite %T", u.GetUserset())
}

// TupleKey renders a tuple as a protobuf tuple key.
func (t Tuple) TupleKey() *openfgav1.TupleKey {
	tk := &openfgav1.TupleKey{Object: t.Obj, Relation: t.Rel, User: t.User}
	if t.Cond != "" {
		tk.Condition = &openfgav1.RelationshipCondition{Name: t.Cond}
		if t.Ctx != nil {
			tk.Condition.Context = MustStruct(t.Ctx)
		}
	}
	return tk
}

// TupleFromKey imports a protobuf tuple key.
func TupleFromKey(tk *openfgav1.TupleKey) Tuple {
	t := Tuple{Obj: tk.GetObject(), Rel: tk.GetRelation(), User: tk.GetUser()}
	if c := tk.GetCondition(); c != nil && c.GetName() != "" {
		t.Cond = c.GetName()
		if c.GetContext() != nil {
			t.Ctx = c.GetContext().AsMap()
		}
	}
	return t
}

// PresentButEmpty is the key that stands for "a context was sent and it is empty" (`context: {}`
// from a client arrives as a Struct whose Fields map is nil); it survives the JSON form of a
// scenario, which an empty map does not.
const PresentButEmpty = "_present_but_empty_"

func MustStruct(m map[string]any) *structpb.Struct {
	if m == nil {
		return nil
	}
	if _, ok := m[PresentButEmpty]; ok {
		c := map[string]any{}
		for k, v := range m {
			if k != PresentButEmpty {
				c[k] = v
			}
		}
		if len(c) == 0 {
			return &structpb.Struct{}
		}
		m = c
	}
	s, err := structpb.NewStruct(normalise(m).(map[string]any))
	if err != nil {
		panic(err)
	}
	return s
}

func normalise(v any) any {
	switch x := v.(type) {
	case map[string]any:
		out := map[string]any{}
		for k, e := range x {
			out[k] = normalise(e)
		}
		return out
	case []any:
		out := make([]any, len(x))
		for i, e := range x {
			out[i] = normalise(e)
		}
		return out
	case []string:
		out := make([]any, len(x))
		for i, e := range x {
			out[i] = e
		}
		return out
	case int:
		return float64(x)
	case int64:
		return float64(x)
	}
	return v
}

package hsql

import (
	"context"
	"fmt"
	"sort"
	"strings"
	"testing"
	"time"

	openfgav1 "github.com/openfga/api/proto/openfga/v1"
	"google.golang.org/protobuf/types/known/wrapperspb"

	"github.com/openfga/openfga/internal/verifsim/gen"
	"github.com/openfga/openfga/internal/verifsim/harness"
	"github.com/openfga/openfga/internal/verifsim/simrt"
	"github.com/openfga/openfga/pkg/server"
	"github.com/openfga/openfga/pkg/storage"
)

// C15: the changelog records tuple history faithfully (server level, both backends).
//
// History of Server.Write requests (valid and invalid ones) with virtual time passing between them,
// read back through Server.ReadChanges with every page size, with and without a type filter, with a
// changelog horizon configured in some runs; plus the storage-level descending read.
func c15Gen(runSeed uint64, tier string) *gen.Scenario {
	sc := c12Gen(runSeed, tier)
	g := gen.New(runSeed ^ 0xc15)
	var ops []gen.Op
	for _, op := range sc.Ops {
		if op.Kind != "write" {
			continue
		}
		op.Model, op.S = 0, ""
		op.N = 0 // API default options
		keep := op.Writes[:0]
		for _, w := range op.Writes {
			if w.User != w.Obj+"#"+w.Rel { // the API rejects implicit tuples
				keep = append(keep, w)
			}
		}
		op.Writes = keep
		if len(op.Writes)+len(op.Deletes) == 0 {
			continue
		}
		ops = append(ops, op)
		ops = append(ops, gen.Op{Kind: "sleep", Dur: int64([]int{1, 20, 400, 31000, 61000}[g.Intn(5)]) * int64(time.Millisecond)})
	}
	sc.Ops = ops
	sc.Knobs["horizon_min"] = []int64{0, 0, 1}[g.Intn(3)]
	sc.Knobs["page"] = int64(1 + g.Intn(6))
	return sc
}

func srvWrite(ctx context.Context, b *backend, store string, op gen.Op) error {
	req := &openfgav1.WriteRequest{StoreId: store, AuthorizationModelId: b.modelID}
	for _, t := range tuplesOf(op.Writes) {
		if req.Writes == nil {
			req.Writes = &openfgav1.WriteRequestWrites{}
		}
		req.Writes.TupleKeys = append(req.Writes.TupleKeys, t.TupleKey())
	}
	for _, t := range tuplesOf(op.Deletes) {
		if req.Deletes == nil {
			req.Deletes = &openfgav1.WriteRequestDeletes{}
		}
		req.Deletes.TupleKeys = append(req.Deletes.TupleKeys, t.Delete())
	}
	if op.N&1 != 0 && req.Deletes != nil {
		req.Deletes.OnMissing = "ignore"
	}
	if op.N&2 != 0 && req.Writes != nil {
		req.Writes.OnDuplicate = "ignore"
	}
	_, err := b.s.Write(ctx, req)
	return err
}

type stamped struct {
	change
	at time.Duration // virtual time when the request returned
}

func srvChanges(ctx context.Context, b *backend, store, typ string, page int32) ([]change, error) {
	var out []change
	token := ""
	for i := 0; i < 5000; i++ {
		resp, err := b.s.ReadChanges(ctx, &openfgav1.ReadChangesRequest{StoreId: store, Type: typ, PageSize: wrapperspb.Int32(page), ContinuationToken: token})
		if err != nil {
			return out, err
		}
		if len(resp.GetChanges()) == 0 {
			return out, nil
		}
		if int32(len(resp.GetChanges())) > page {
			return out, fmt.Errorf("page of %d entries with page size %d", len(resp.GetChanges()), page)
		}
		for _, c := range resp.GetChanges() {
			ch := change{del: c.GetOperation() == openfgav1.TupleOperation_TUPLE_OPERATION_DELETE, tk: render(c.GetTupleKey())}
			if ch.del {
				ch.tk = c.GetTupleKey().GetObject() + "#" + c.GetTupleKey().GetRelation() + "@" + c.GetTupleKey().GetUser()
			}
			out = append(out, ch)
		}
		token = resp.GetContinuationToken()
	}
	return out, fmt.Errorf("ReadChanges did not end after 5000 pages")
}

func c15Exec(t *testing.T, sc *gen.Scenario, trace bool) *harness.Outcome {
	out := &harness.Outcome{Shape: fmt.Sprintf("ops%d", len(sc.Ops))}
	msg := harness.Bubble(t, func(t *testing.T) {
		e := setup(t, sc, trace, out)
		if e == nil {
			simrt.End()
			return
		}
		defer e.finish(trace)
		horizon := time.Duration(sc.Knob("horizon_min", 0)) * time.Minute
		bs, err := e.servers(server.WithChangelogHorizonOffset(int(sc.Knob("horizon_min", 0))))
		if err != nil {
			out.Infra = "servers: " + err.Error()
			return
		}
		defer func() {
			for _, b := range bs {
				b.s.Close()
			}
		}()
		ctx := context.Background()
		for _, b := range bs {
			ref := newRefStore()
			var times []time.Duration // commit instant per reference group
			for i, op := range sc.Ops {
				if op.Kind == "sleep" {
					if b.name == "memory" {
						continue // the clock is advanced once, during the second backend's pass as well
					}
				}
				if op.Kind == "sleep" {
					time.Sleep(time.Duration(op.Dur))
					continue
				}
				// the API rejects a request naming the same tuple twice; the generator never does
				after := ref.clone()
				ok, why := after.apply(tuplesOf(op.Deletes), tuplesOf(op.Writes), op.N&1 != 0, op.N&2 != 0)
				before := e.run.Elapsed()
				err := srvWrite(ctx, b, e.store, op)
				out.Evals++
				e.run.Log("write", fmt.Sprintf("%s op%d d=%v w=%v err=%v", b.name, i, tuplesOf(op.Deletes), tuplesOf(op.Writes), err != nil))
				if (err == nil) != ok {
					e.violate("write_outcome_differs", "backend="+b.name, "op %d on %s: Write(deletes=%v writes=%v) err=%v, the documented semantics say ok=%v (%s)", i, b.name, tuplesOf(op.Deletes), tuplesOf(op.Writes), err, ok, why)
					return
				}
				if ok {
					if len(after.groups) > len(ref.groups) {
						times = append(times, before)
					}
					ref = after
				}
				if b.name == "memory" {
					time.Sleep(time.Millisecond) // distinct commit instants
				}
			}
			// what the horizon withholds: groups committed later than now - horizon (1 ms of slack either way)
			now := e.run.Elapsed()
			visible := ref
			if horizon > 0 && b.name == "sqlite" {
				// SQLite stamps and filters changes with its own clock (datetime('subsec')), which is the
				// real clock and not behind any seam: in a run that lasts milliseconds of real time every
				// change is newer than a one-minute horizon. Only "nothing newer than the horizon leaks" can
				// be judged here: the result must be empty.
				visible = newRefStore()
				simrt.Probe("sqlite_horizon_runs_real_clock")
			} else if horizon > 0 {
				visible = newRefStore()
				for gi, g := range ref.groups {
					if times[gi] <= now-horizon-2*time.Millisecond {
						visible.groups = append(visible.groups, g)
					} else if times[gi] < now-horizon+2*time.Millisecond {
						simrt.Probe("group_at_horizon_edge")
						out.NonTrivial = true
						return // too close to call
					}
				}
				simrt.Probe("horizon_runs")
			}
			page := int32(sc.Knob("page", 3))
			for _, typ := range []string{"", "doc", "group", "docs"} {
				got, err := srvChanges(ctx, b, e.store, typ, page)
				if err != nil {
					e.violate("unexpected_error:readchanges", "backend="+b.name, "ReadChanges(type=%q page=%d) on %s: %v", typ, page, b.name, err)
					return
				}
				want := newRefStore()
				for _, g := range visible.groups {
					var fg []change
					for _, c := range g {
						if typ == "" || strings.HasPrefix(c.tk, typ+":") {
							fg = append(fg, c)
						}
					}
					if len(fg) > 0 {
						want.groups = append(want.groups, fg)
					}
				}
				out.Evals++
				if ok, why := sameChangelog(got, want); !ok {
					tag := ""
					if horizon > 0 {
						tag = " horizon"
					}
					e.violate("changelog_differs", fmt.Sprintf("backend=%s type=%v%s", b.name, typ != "", tag), "ReadChanges(type=%q page=%d, horizon %v) on %s: %s\n  returned: %v\n  %s", typ, page, horizon, b.name, why, got, debugClock(e))
					return
				}
				if typ == "" && horizon == 0 {
					// replaying the changes onto an empty store reproduces the current tuples
					replay := map[string]string{}
					for _, c := range got {
						key := c.tk
						if i := strings.Index(key, "["); i > 0 {
							key = key[:i]
						}
						if c.del {
							delete(replay, key)
						} else {
							replay[key] = c.tk
						}
					}
					var rs []string
					for _, v := range replay {
						rs = append(rs, v)
					}
					sort.Strings(rs)
					cur, err := dumpTuples(ctx, b.ds, e.store)
					if err != nil {
						e.violate("unexpected_error:read", "backend="+b.name, "reading %s: %v", b.name, err)
						return
					}
					if strings.Join(rs, ";") != strings.Join(cur, ";") {
						e.violate("replay_differs_from_store", "backend="+b.name, "replaying ReadChanges of %s gives %v, the store holds %v", b.name, rs, cur)
						return
					}
				}
			}
			// storage level: descending is the exact reverse of ascending
			asc, err1 := dumpChanges(ctx, b.ds, e.store, false, int(page), "")
			dsc, err2 := dumpChanges(ctx, b.ds, e.store, true, int(page), "")
			if err1 != nil || err2 != nil {
				e.violate("unexpected_error:readchanges", "backend="+b.name+" storage", "storage ReadChanges on %s: %v / %v", b.name, err1, err2)
				return
			}
			out.Evals++
			rev := make([]string, len(dsc))
			for i := range dsc {
				rev[len(dsc)-1-i] = dsc[i].String()
			}
			var a []string
			for _, c := range asc {
				a = append(a, c.String())
			}
			if strings.Join(a, ";") != strings.Join(rev, ";") {
				e.violate("descending_not_reverse", "backend="+b.name, "storage ReadChanges on %s (page %d): ascending %v, descending reversed %v", b.name, page, a, rev)
				return
			}
			// storage level, with a type filter and a horizon that cuts the history in two (memory backend:
			// its horizon reads the virtual clock): the horizon withholds a suffix of the ascending listing,
			// and descending stays the exact reverse of ascending
			strs := func(cs []change) []string {
				var o []string
				for _, c := range cs {
					o = append(o, c.String())
				}
				return o
			}
			for _, typ := range []string{"", "doc"} {
				ascT, err := dumpChanges(ctx, b.ds, e.store, false, int(page), typ)
				if err != nil {
					e.violate("unexpected_error:readchanges", "backend="+b.name+" storage", "storage ReadChanges on %s: %v", b.name, err)
					return
				}
				for _, c := range ascT {
					if typ != "" && !strings.HasPrefix(c.tk, typ+":") {
						e.violate("changelog_differs", fmt.Sprintf("backend=%s type=true storage", b.name), "storage ReadChanges(type=%q) on %s returned %s", typ, b.name, c)
						return
					}
				}
				if b.name != "memory" || len(times) < 2 {
					continue
				}
				k := len(times) / 2
				if times[k]-times[k-1] < 4*time.Millisecond {
					continue
				}
				hz := e.run.Elapsed() - (times[k-1]+times[k])/2
				ascH, err1 := dumpChangesH(ctx, b.ds, e.store, false, int(page), typ, hz)
				dscH, err2 := dumpChangesH(ctx, b.ds, e.store, true, int(page), typ, hz)
				if err1 != nil || err2 != nil {
					e.violate("unexpected_error:readchanges", "backend="+b.name+" storage horizon", "storage ReadChanges with a horizon on %s: %v / %v", b.name, err1, err2)
					return
				}
				out.Evals++
				a, h := strs(ascT), strs(ascH)
				if len(h) > len(a) || strings.Join(a[:len(h)], ";") != strings.Join(h, ";") {
					e.violate("horizon_not_a_prefix", "backend="+b.name, "storage ReadChanges(type=%q, horizon %v) on %s: %v is not a prefix of the full listing %v", typ, hz, b.name, h, a)
					return
				}
				rev := make([]string, len(dscH))
				for i := range dscH {
					rev[len(dscH)-1-i] = dscH[i].String()
				}
				if strings.Join(h, ";") != strings.Join(rev, ";") {
					e.violate("descending_not_reverse", "backend="+b.name+" horizon", "storage ReadChanges(type=%q, horizon %v, page %d) on %s: ascending %v, descending reversed %v", typ, hz, page, b.name, h, rev)
					return
				}
				if len(h) > 0 && len(h) < len(a) {
					simrt.Probe("storage_horizon_cuts_history")
				}
			}
			if len(ref.groups) > 0 {
				out.NonTrivial = true
			}
		}
	})
	if msg != "" && out.Violation == nil && out.Infra == "" {
		out.Infra = "bubble: " + msg
	}
	return out
}

var _ = storage.ErrNotFound

func debugClock(e *env) string {
	uri := "file:" + e.path
	db := e.sim.OpenDB(uri)
	defer db.Close()
	var now, last string
	_ = db.QueryRow("select datetime('subsec')").Scan(&now)
	_ = db.QueryRow("select cast(max(inserted_at) as text) from changelog").Scan(&last)
	return fmt.Sprintf("sqlite now=%s newest inserted_at=%s go now=%s", now, last, time.Now().UTC())
}

package hsql

import (
	"context"
	"errors"
	"fmt"
	"strings"
	"testing"
	"time"

	openfgav1 "github.com/openfga/api/proto/openfga/v1"

	"github.com/openfga/openfga/internal/verifsim/gen"
	"github.com/openfga/openfga/internal/verifsim/harness"
	rm "github.com/openfga/openfga/internal/verifsim/refmodel"
	"github.com/openfga/openfga/internal/verifsim/simrt"
	"github.com/openfga/openfga/pkg/storage"
	"github.com/openfga/openfga/pkg/storage/memory"
)

func Props() []*harness.Prop {
	return []*harness.Prop{
		{ID: "C12", Gen: c12Gen, Exec: c12Exec},
		{ID: "C13", Gen: c13Gen, Exec: c13Exec},
		{ID: "C14", Gen: c14Gen, Exec: c14Exec},
		{ID: "C15", Gen: c15Gen, Exec: c15Exec},
		{ID: "C31", Gen: c31Gen, Exec: c31Exec},
	}
}

var (
	uObjs  = []string{"doc:1", "doc:2", "group:1", "docs:1"} // "docs": a type whose name starts with another type's name
	uRels  = []string{"viewer", "member"}
	uUsers = []string{"user:a", "user:b", "user:*", "group:1#member", "doc:2", "group:1#viewer", "doc:2#member", "doc:2#viewer"}
)

func pickT(g *gen.G) T {
	t := T{Obj: gen.Pick(g, uObjs), Rel: gen.Pick(g, uRels), User: gen.Pick(g, uUsers), X: -1}
	switch g.Intn(6) {
	case 0:
		t.Cond, t.X = "c1", int64(g.Intn(3))
	case 1:
		t.Cond, t.X = "c1", -1
	case 2:
		t.Cond, t.X = "c2", 1
	}
	return t
}

func toRM(t T) rm.Tuple {
	r := rm.Tuple{Obj: t.Obj, Rel: t.Rel, User: t.User, Cond: t.Cond}
	if t.Cond != "" && t.X >= 0 {
		r.Ctx = map[string]any{"x": float64(t.X)}
	}
	return r
}

func fromRM(r rm.Tuple) T {
	t := T{Obj: r.Obj, Rel: r.Rel, User: r.User, Cond: r.Cond, X: -1}
	if v, ok := r.Ctx["x"].(float64); ok {
		t.X = int64(v)
	}
	return t
}

// c12Gen: a history of 6-16 Write requests over a universe of 30 tuple keys x 4 condition variants,
// with every combination of the two ignore options, and for the SQL backend a failure injected at the
// k-th driver operation of the request (statement error, lost connection, or commit whose
// acknowledgement is lost).
func c12Gen(runSeed uint64, tier string) *gen.Scenario {
	g := gen.New(runSeed ^ 0xc12)
	sc := &gen.Scenario{Version: 1, Harness: "hsql", Knobs: map[string]int64{}}
	n := 6 + g.Intn(11)
	live := map[string]T{}
	for i := 0; i < n; i++ {
		op := gen.Op{Kind: "write"}
		used := map[string]bool{}
		nd, nw := g.Intn(3), g.Intn(4)
		if nd+nw == 0 {
			nw = 1
		}
		for k := 0; k < nd; k++ {
			var t T
			if len(live) > 0 && g.Chance(0.7) {
				for _, v := range live { // map order is seeded by the runtime overlay only inside a run; sort instead
					_ = v
				}
				t = pickLive(g, live)
			} else {
				t = pickT(g)
			}
			if used[t.Key()] {
				continue
			}
			used[t.Key()] = true
			op.Deletes = append(op.Deletes, toRM(t))
		}
		for k := 0; k < nw; k++ {
			t := pickT(g)
			if len(live) > 0 && g.Chance(0.3) {
				t = pickLive(g, live) // existing key: same or different condition
				if g.Chance(0.5) {
					t.Cond, t.X = "c1", int64(g.Intn(3))
				}
			}
			if used[t.Key()] {
				continue
			}
			used[t.Key()] = true
			op.Writes = append(op.Writes, toRM(t))
		}
		op.N = g.Intn(4) // bit 0: ignore missing deletes, bit 1: ignore duplicate inserts
		if g.Chance(0.45) {
			op.Model = 1 + g.Intn(10) // fail at the k-th driver operation
			op.S = fmt.Sprint(g.Intn(3))
		}
		// keep the generator's idea of what is live roughly right (the oracle does not depend on it)
		if op.Model == 0 {
			for _, d := range op.Deletes {
				delete(live, d.Key())
			}
			for _, w := range op.Writes {
				if _, ok := live[w.Key()]; !ok {
					live[w.Key()] = fromRM(w)
				}
			}
		}
		sc.Ops = append(sc.Ops, op)
		if g.Chance(0.2) {
			sc.Ops = append(sc.Ops, gen.Op{Kind: "sleep", Dur: int64(1+g.Intn(50)) * int64(time.Millisecond)})
		}
	}
	sc.Knobs["delay_mode"] = int64(g.Intn(simrt.NumModes))
	return sc
}

func pickLive(g *gen.G, live map[string]T) T {
	keys := make([]string, 0, len(live))
	for k := range live {
		keys = append(keys, k)
	}
	sortStrings(keys)
	return live[gen.Pick(g, keys)]
}

func sortStrings(xs []string) {
	for i := 1; i < len(xs); i++ {
		for j := i; j > 0 && xs[j] < xs[j-1]; j-- {
			xs[j], xs[j-1] = xs[j-1], xs[j]
		}
	}
}

type env struct {
	run   *simrt.Run
	sim   *SimSQL
	path  string
	sql   storage.OpenFGADatastore
	mem   storage.OpenFGADatastore
	store string
	out   *harness.Outcome
}

func (e *env) violate(class, sig, format string, a ...any) {
	if e.out.Violation == nil {
		e.out.Violation = &harness.Violation{Class: class, Sig: sig, Detail: fmt.Sprintf(format, a...)}
	}
}

const storeID = "01HVXR1FST0RE0000000000001"

func setup(t *testing.T, sc *gen.Scenario, trace bool, out *harness.Outcome) *env {
	run := simrt.Begin(simrt.Config{Seed: sc.RunSeed, Mode: int(sc.Knob("delay_mode", 0)), Trace: trace, MaxYield: sc.Knob("max_yield_ns", 2000)})
	e := &env{run: run, out: out, store: storeID}
	p, err := freshDB()
	if err != nil {
		out.Infra = "sqlite template: " + err.Error()
		return nil
	}
	e.path = p
	e.sim = NewSimSQL(run)
	ds, err := openSQLite(e.sim, p)
	if err != nil {
		out.Infra = "sqlite open: " + err.Error()
		return nil
	}
	e.sql = ds
	e.mem = memory.New()
	ctx := context.Background()
	for _, d := range []storage.OpenFGADatastore{e.sql, e.mem} {
		if _, err := d.CreateStore(ctx, &openfgav1.Store{Id: e.store, Name: "s1"}); err != nil {
			out.Infra = "create store: " + err.Error()
			return nil
		}
	}
	return e
}

func (e *env) reopenSQL() error {
	e.sql.Close()
	ds, err := openSQLite(e.sim, e.path)
	if err != nil {
		return err
	}
	e.sql = ds
	return nil
}

func (e *env) finish(trace bool) {
	e.sql.Close()
	e.mem.Close()
	removeDB(e.path)
	e.out.Digest = e.run.Digest()
	e.out.Events = e.run.NumEvents()
	e.out.Yields = e.run.NumYields()
	e.out.SimTimeNs = int64(e.run.Elapsed())
	e.out.Probes = e.run.Probes()
	if trace {
		e.out.Trace = e.run.Events()
	}
	simrt.End()
}

func tuplesOf(rs []rm.Tuple) []T {
	var out []T
	for _, r := range rs {
		out = append(out, fromRM(r))
	}
	return out
}

func writeArgs(op gen.Op) (storage.Deletes, storage.Writes, []storage.TupleWriteOption) {
	var d storage.Deletes
	var w storage.Writes
	for _, t := range tuplesOf(op.Deletes) {
		d = append(d, t.Delete())
	}
	for _, t := range tuplesOf(op.Writes) {
		w = append(w, t.TupleKey())
	}
	var opts []storage.TupleWriteOption
	if op.N&1 != 0 {
		opts = append(opts, storage.WithOnMissingDelete(storage.OnMissingDeleteIgnore))
	}
	if op.N&2 != 0 {
		opts = append(opts, storage.WithOnDuplicateInsert(storage.OnDuplicateInsertIgnore))
	}
	return d, w, opts
}

func c12Exec(t *testing.T, sc *gen.Scenario, trace bool) *harness.Outcome {
	out := &harness.Outcome{Shape: fmt.Sprintf("ops%d", len(sc.Ops))}
	msg := harness.Bubble(t, func(t *testing.T) {
		e := setup(t, sc, trace, out)
		if e == nil {
			simrt.End()
			return
		}
		defer e.finish(trace)
		ctx := context.Background()
		refMem, refSQL := newRefStore(), newRefStore()
		check := func(i int, name string, ds storage.OpenFGADatastore, ref *refStore, phase string) bool {
			got, err := dumpTuples(ctx, ds, e.store)
			if err != nil {
				e.violate("unexpected_error:read", "backend="+name, "op %d: reading %s back failed: %v", i, name, err)
				return false
			}
			if want := ref.state(); strings.Join(got, ";") != strings.Join(want, ";") {
				e.violate("state_differs", "backend="+name+" "+phase, "op %d (%s): %s holds %v, the reference %v", i, phase, name, got, want)
				return false
			}
			chs, err := dumpChanges(ctx, ds, e.store, false, 7, "")
			if err != nil {
				e.violate("unexpected_error:readchanges", "backend="+name, "op %d: ReadChanges on %s failed: %v", i, name, err)
				return false
			}
			if ok, why := sameChangelog(chs, ref); !ok {
				e.violate("changelog_differs", "backend="+name+" "+phase, "op %d (%s) on %s: %s", i, phase, name, why)
				return false
			}
			return true
		}
		for i, op := range sc.Ops {
			if op.Kind == "sleep" {
				time.Sleep(time.Duration(op.Dur))
				continue
			}
			dels, wrs, opts := writeArgs(op)
			ignoreMissing, ignoreDup := op.N&1 != 0, op.N&2 != 0
			desc := fmt.Sprintf("Write(deletes=%v writes=%v ignoreMissing=%v ignoreDup=%v)", tuplesOf(op.Deletes), tuplesOf(op.Writes), ignoreMissing, ignoreDup)
			// ---- memory backend: semantics only
			{
				after := refMem.clone()
				ok, why := after.apply(tuplesOf(op.Deletes), tuplesOf(op.Writes), ignoreMissing, ignoreDup)
				err := e.mem.Write(ctx, e.store, dels, wrs, opts...)
				out.Evals++
				e.run.Log("mem", fmt.Sprintf("op%d ok=%v err=%v", i, ok, err != nil))
				switch {
				case ok && err != nil:
					e.violate("valid_write_rejected", "backend=memory", "op %d: %s must succeed but failed: %v", i, desc, err)
				case !ok && err == nil:
					e.violate("invalid_write_accepted", "backend=memory", "op %d: %s must fail (%s) but succeeded", i, desc, why)
				case !ok && !errors.Is(err, storage.ErrInvalidWriteInput) && !errors.Is(err, storage.ErrTransactionalWriteFailed):
					e.violate("wrong_error", "backend=memory", "op %d: %s must fail as invalid input or conflict (%s), got %v", i, desc, why, err)
				}
				if out.Violation != nil {
					return
				}
				if ok {
					refMem = after
				}
				if !check(i, "memory", e.mem, refMem, "after_write") {
					return
				}
			}
			// ---- SQLite backend: semantics and atomicity under failures
			before := refSQL.clone()
			after := refSQL.clone()
			ok, why := after.apply(tuplesOf(op.Deletes), tuplesOf(op.Writes), ignoreMissing, ignoreDup)
			mode := 0
			fmt.Sscan(op.S, &mode)
			e.sim.Arm(op.Model, mode)
			err := e.sql.Write(ctx, e.store, dels, wrs, opts...)
			ops, fired := e.sim.Disarm()
			out.Evals++
			e.run.Log("sql", fmt.Sprintf("op%d ok=%v err=%v fired=%s ops=%d", i, ok, err != nil, fired, len(ops)))
			if fired != "" {
				simrt.Probe("fault_fired_mode" + fmt.Sprint(mode))
				if mode >= 1 {
					// the connection (or the process) is gone: whatever survives is what the file holds
					if rerr := e.reopenSQL(); rerr != nil {
						out.Infra = "reopen: " + rerr.Error()
						return
					}
				}
				got, rerr := dumpTuples(ctx, e.sql, e.store)
				if rerr != nil {
					e.violate("unexpected_error:read", "backend=sqlite after_fault", "op %d: reading back after an injected failure (%s) failed: %v", i, fired, rerr)
					return
				}
				g := strings.Join(got, ";")
				switch {
				case g == strings.Join(before.state(), ";") && (err != nil || !ok || strings.Join(before.state(), ";") == strings.Join(after.state(), ";")):
					refSQL = before
					if ok && err == nil {
						refSQL = after // nothing to change and nothing changed
					}
				case ok && g == strings.Join(after.state(), ";"):
					refSQL = after // e.g. the commit went through and only its acknowledgement was lost
					if err != nil {
						simrt.Probe("applied_although_error_returned")
					}
				default:
					e.violate("partial_write", fmt.Sprintf("backend=sqlite mode=%d at=%s", mode, strings.SplitN(fired, "#", 2)[0]), "op %d: %s with a failure injected at driver operation %s (mode %d; operations %v) returned err=%v and left %v; before the request the store held %v, the complete request gives %v", i, desc, fired, mode, ops, err, got, before.state(), after.state())
					return
				}
				if err == nil && ok && g != strings.Join(after.state(), ";") {
					e.violate("acknowledged_write_lost", fmt.Sprintf("backend=sqlite mode=%d at=%s", mode, strings.SplitN(fired, "#", 2)[0]), "op %d: %s returned success although a failure was injected at %s, and the store holds %v instead of %v", i, desc, fired, got, after.state())
					return
				}
			} else {
				switch {
				case ok && err != nil:
					e.violate("valid_write_rejected", "backend=sqlite", "op %d: %s must succeed but failed: %v", i, desc, err)
				case !ok && err == nil:
					e.violate("invalid_write_accepted", "backend=sqlite", "op %d: %s must fail (%s) but succeeded", i, desc, why)
				case !ok && !errors.Is(err, storage.ErrInvalidWriteInput) && !errors.Is(err, storage.ErrTransactionalWriteFailed):
					e.violate("wrong_error", "backend=sqlite", "op %d: %s must fail as invalid input or conflict (%s), got %v", i, desc, why, err)
				}
				if out.Violation != nil {
					return
				}
				if ok {
					refSQL = after
				}
			}
			phase := "after_write"
			if fired != "" {
				phase = "after_fault"
			}
			if !check(i, "sqlite", e.sql, refSQL, phase) {
				return
			}
		}
		out.NonTrivial = out.Evals > 0
	})
	if msg != "" && out.Violation == nil && out.Infra == "" {
		out.Infra = "bubble: " + msg
	}
	return out
}

package hsql

import (
	"fmt"
	"io"
	"os"
	"path/filepath"
	"sync"

	"github.com/pressly/goose/v3"

	"github.com/openfga/openfga/assets"
	"github.com/openfga/openfga/internal/verifsim/simrt"
	"github.com/openfga/openfga/pkg/storage"
	"github.com/openfga/openfga/pkg/storage/sqlcommon"
	"github.com/openfga/openfga/pkg/storage/sqlite"
)

var (
	tmplOnce sync.Once
	tmplPath string
	tmplErr  error
	scratch  string
	nDB      int
)

// template builds one migrated, empty SQLite database per worker process; every run copies it.
func template() (string, error) {
	tmplOnce.Do(func() {
		scratch = filepath.Join(filepath.Dir(os.Getenv("VSIM_JOB")), fmt.Sprintf("sqlite-%d", os.Getpid()))
		if tmplErr = os.MkdirAll(scratch, 0o755); tmplErr != nil {
			return
		}
		tmplPath = filepath.Join(scratch, "template.db")
		uri, err := sqlite.PrepareDSN("file:" + tmplPath)
		if err != nil {
			tmplErr = err
			return
		}
		db, err := goose.OpenDBWithDriver("sqlite", uri)
		if err != nil {
			tmplErr = err
			return
		}
		defer db.Close()
		goose.SetLogger(goose.NopLogger())
		goose.SetBaseFS(assets.EmbedMigrations)
		tmplErr = goose.Up(db, assets.SqliteMigrationDir)
	})
	return tmplPath, tmplErr
}

// freshDB copies the template and returns the new file's path.
func freshDB() (string, error) {
	t, err := template()
	if err != nil {
		return "", err
	}
	nDB++
	p := filepath.Join(scratch, fmt.Sprintf("run-%d.db", nDB))
	for _, suf := range []string{"", "-wal", "-shm"} {
		os.Remove(p + suf)
	}
	in, err := os.Open(t)
	if err != nil {
		return "", err
	}
	defer in.Close()
	out, err := os.Create(p)
	if err != nil {
		return "", err
	}
	defer out.Close()
	_, err = io.Copy(out, in)
	return p, err
}

func removeDB(p string) {
	for _, suf := range []string{"", "-wal", "-shm", "-journal"} {
		os.Remove(p + suf)
	}
}

// openSQLite opens the real SQLite datastore on path through the simulated driver.
func openSQLite(s *SimSQL, path string) (*sqlite.Datastore, error) {
	uri, err := sqlite.PrepareDSN("file:" + path)
	if err != nil {
		return nil, err
	}
	db := s.OpenDB(uri)
	cfg := sqlcommon.NewConfig()
	return sqlite.NewWithDB(db, cfg)
}

// OpenForEngine gives another harness (the store-isolation check C16) the real SQLite datastore on a
// fresh copy of the migrated template, through the simulated driver. The returned function closes
// the datastore and removes the file.
func OpenForEngine(run *simrt.Run) (storage.OpenFGADatastore, func(), error) {
	p, err := freshDB()
	if err != nil {
		return nil, nil, err
	}
	ds, err := openSQLite(NewSimSQL(run), p)
	if err != nil {
		removeDB(p)
		return nil, nil, err
	}
	return ds, func() { ds.Close(); removeDB(p) }, nil
}

package hsql

import (
	"context"
	"errors"
	"fmt"
	"sort"
	"strings"
	"time"

	openfgav1 "github.com/openfga/api/proto/openfga/v1"
	"google.golang.org/protobuf/encoding/protojson"
	"google.golang.org/protobuf/types/known/structpb"

	"github.com/openfga/openfga/pkg/storage"
	"github.com/openfga/openfga/pkg/tuple"
)

// T is a tuple of the small universe the storage checks work in.
type T struct {
	Obj, Rel, User string
	Cond           string
	X              int64 // condition context {x: X}; -1 = empty context
}

func (t T) Key() string { return t.Obj + "#" + t.Rel + "@" + t.User }
func (t T) String() string {
	s := t.Key()
	if t.Cond != "" {
		s += fmt.Sprintf("[%s x=%d]", t.Cond, t.X)
	}
	return s
}

func (t T) TupleKey() *openfgav1.TupleKey {
	tk := &openfgav1.TupleKey{Object: t.Obj, Relation: t.Rel, User: t.User}
	if t.Cond != "" {
		tk.Condition = &openfgav1.RelationshipCondition{Name: t.Cond}
		if t.X >= 0 {
			st, _ := structpb.NewStruct(map[string]any{"x": float64(t.X)})
			tk.Condition.Context = st
		} else {
			tk.Condition.Context = &structpb.Struct{}
		}
	}
	return tk
}

func (t T) Delete() *openfgav1.TupleKeyWithoutCondition {
	return &openfgav1.TupleKeyWithoutCondition{Object: t.Obj, Relation: t.Rel, User: t.User}
}

// render is the canonical text of a stored tuple key (condition name and context included).
func render(tk *openfgav1.TupleKey) string {
	s := tk.GetObject() + "#" + tk.GetRelation() + "@" + tk.GetUser()
	if c := tk.GetCondition(); c != nil && c.GetName() != "" {
		ctx := "{}"
		if c.GetContext() != nil && len(c.GetContext().GetFields()) > 0 {
			b, _ := protojson.Marshal(c.GetContext())
			ctx = strings.ReplaceAll(string(b), " ", "")
		}
		s += "[" + c.GetName() + " " + ctx + "]"
	}
	return s
}

type change struct {
	del bool
	tk  string // rendered
}

func (c change) String() string {
	if c.del {
		return "D " + c.tk
	}
	return "W " + c.tk
}

// refStore is the reference for one store: current tuples and the changelog, request by request.
type refStore struct {
	tuples map[string]*openfgav1.TupleKey
	groups [][]change // one group per successful write request, in commit order
}

func newRefStore() *refStore { return &refStore{tuples: map[string]*openfgav1.TupleKey{}} }

func (r *refStore) clone() *refStore {
	c := newRefStore()
	for k, v := range r.tuples {
		c.tuples[k] = v
	}
	c.groups = append(c.groups, r.groups...)
	return c
}

func sameCondition(a, b *openfgav1.TupleKey) bool { return render(a) == render(b) }

// apply implements the documented write semantics. ok=false: the request must fail as a whole and
// change nothing.
func (r *refStore) apply(deletes, writes []T, ignoreMissing, ignoreDup bool) (ok bool, why string) {
	var dels []T
	var ins []T
	for _, d := range deletes {
		if _, exists := r.tuples[d.Key()]; !exists {
			if ignoreMissing {
				continue
			}
			return false, "delete of missing " + d.Key()
		}
		dels = append(dels, d)
	}
	for _, w := range writes {
		if ex, exists := r.tuples[w.Key()]; exists {
			if ignoreDup && sameCondition(ex, w.TupleKey()) {
				continue
			}
			if ignoreDup {
				return false, "write of existing " + w.Key() + " with a different condition"
			}
			return false, "write of existing " + w.Key()
		}
		ins = append(ins, w)
	}
	var g []change
	for _, d := range dels {
		g = append(g, change{true, d.Key()})
		delete(r.tuples, d.Key())
	}
	for _, w := range ins {
		g = append(g, change{false, render(w.TupleKey())})
		r.tuples[w.Key()] = w.TupleKey()
	}
	if len(g) > 0 {
		r.groups = append(r.groups, g)
	}
	return true, ""
}

func (r *refStore) state() []string {
	var out []string
	for _, tk := range r.tuples {
		out = append(out, render(tk))
	}
	sort.Strings(out)
	return out
}

func (r *refStore) flatChanges() []change {
	var out []change
	for _, g := range r.groups {
		out = append(out, g...)
	}
	return out
}

// ---------------------------------------------------------------- reading a backend's state

func dumpTuples(ctx context.Context, ds storage.OpenFGADatastore, store string) ([]string, error) {
	it, err := ds.Read(ctx, store, storage.ReadFilter{}, storage.ReadOptions{})
	if err != nil {
		return nil, err
	}
	defer it.Stop()
	var out []string
	for {
		t, err := it.Next(ctx)
		if err != nil {
			if errors.Is(err, storage.ErrIteratorDone) {
				break
			}
			return nil, err
		}
		out = append(out, render(t.GetKey()))
	}
	sort.Strings(out)
	return out, nil
}

func dumpChanges(ctx context.Context, ds storage.OpenFGADatastore, store string, desc bool, pageSize int, objectType string) ([]change, error) {
	return dumpChangesH(ctx, ds, store, desc, pageSize, objectType, 0)
}

// dumpChangesH follows the storage-level ReadChanges with a horizon offset.
func dumpChangesH(ctx context.Context, ds storage.OpenFGADatastore, store string, desc bool, pageSize int, objectType string, horizon time.Duration) ([]change, error) {
	var out []change
	token := ""
	for page := 0; page < 10000; page++ {
		chs, next, err := ds.ReadChanges(ctx, store, storage.ReadChangesFilter{ObjectType: objectType, HorizonOffset: horizon}, storage.ReadChangesOptions{SortDesc: desc, Pagination: storage.PaginationOptions{PageSize: pageSize, From: token}})
		if err != nil {
			if errors.Is(err, storage.ErrNotFound) {
				break
			}
			return nil, err
		}
		for _, c := range chs {
			ch := change{del: c.GetOperation() == openfgav1.TupleOperation_TUPLE_OPERATION_DELETE, tk: render(c.GetTupleKey())}
			if ch.del {
				ch.tk = tuple.TupleKeyToString(c.GetTupleKey())
				ch.tk = c.GetTupleKey().GetObject() + "#" + c.GetTupleKey().GetRelation() + "@" + c.GetTupleKey().GetUser()
			}
			out = append(out, ch)
		}
		if next == "" || next == token || len(chs) == 0 {
			break
		}
		token = next
	}
	return out, nil
}

// sameChangelog compares a backend's changelog with the reference: request groups in commit order,
// entries within one request in any order.
func sameChangelog(got []change, ref *refStore) (bool, string) {
	i := 0
	for gi, g := range ref.groups {
		if i+len(g) > len(got) {
			return false, fmt.Sprintf("changelog ends after %d entries; request group %d (%v) is missing", len(got), gi, g)
		}
		a := make([]string, 0, len(g))
		b := make([]string, 0, len(g))
		for k := range g {
			a = append(a, g[k].String())
			b = append(b, got[i+k].String())
		}
		sort.Strings(a)
		sort.Strings(b)
		if strings.Join(a, ";") != strings.Join(b, ";") {
			return false, fmt.Sprintf("request group %d: changelog has %v, the request changed %v", gi, b, a)
		}
		i += len(g)
	}
	if i != len(got) {
		return false, fmt.Sprintf("changelog has %d entries beyond the %d the successful requests produced: %v", len(got)-i, i, got[i:])
	}
	return true, ""
}

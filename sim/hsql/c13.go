package hsql

import (
	"context"
	"errors"
	"fmt"
	"sort"
	"strings"
	"testing"

	openfgav1 "github.com/openfga/api/proto/openfga/v1"

	"github.com/openfga/openfga/internal/verifsim/gen"
	"github.com/openfga/openfga/internal/verifsim/harness"
	"github.com/openfga/openfga/internal/verifsim/simrt"
	"github.com/openfga/openfga/pkg/storage"
	"github.com/openfga/openfga/pkg/tuple"
)

// C13: both backends answer every read operation alike and as documented.
//
// A history of writes (C12's generator, no failures) is applied to memory and SQLite; then 25 read
// calls with generated filters are issued against both and against a reference that implements
// the documented meaning of each filter. Tuple conditions and contexts are part of the comparison.
func c13Gen(runSeed uint64, tier string) *gen.Scenario {
	sc := c12Gen(runSeed, tier)
	g := gen.New(runSeed ^ 0xc13)
	for i := range sc.Ops {
		sc.Ops[i].Model, sc.Ops[i].S = 0, ""
	}
	conds := func() []string {
		switch g.Intn(7) {
		case 0:
			return []string{}
		case 1:
			return []string{""}
		case 2:
			return []string{"c1"}
		case 3:
			return []string{"c1", "c1", ""}
		case 4:
			return []string{"c2", "nope"}
		}
		return nil
	}
	for i := 0; i < 25; i++ {
		r := gen.Request{}
		switch g.Intn(5) {
		case 0:
			r.Kind = "Read"
			switch g.Intn(5) {
			case 0: // everything
			case 1:
				r.Obj = gen.Pick(g, uObjs)
			case 2:
				r.Obj, r.Rel = strings.SplitN(gen.Pick(g, uObjs), ":", 2)[0]+":", gen.Pick(g, uRels)
				r.User = gen.Pick(g, uUsers)
			case 3:
				r.Obj, r.User = gen.Pick(g, uObjs), gen.Pick(g, []string{"user:", "group:", "user:a", "group:1#member", "user:*"})
			case 4:
				r.Obj, r.Rel, r.User = gen.Pick(g, uObjs), gen.Pick(g, uRels), gen.Pick(g, uUsers)
			}
		case 1:
			r.Kind = "ReadPage"
			r.Obj = gen.Pick(g, append([]string{"", "doc:", "group:"}, uObjs...))
			if r.Obj != "" && strings.HasSuffix(r.Obj, ":") {
				r.User = gen.Pick(g, uUsers)
			}
			r.Limit = 1 + g.Intn(5)
		case 2:
			r.Kind = "ReadUserTuple"
			r.Obj, r.Rel, r.User = gen.Pick(g, uObjs), gen.Pick(g, uRels), gen.Pick(g, uUsers)
		case 3:
			r.Kind = "ReadUsersetTuples"
			r.Obj, r.Rel = gen.Pick(g, uObjs), gen.Pick(g, uRels)
			// restrictions encoded in Filter: comma separated "group#member", "user:*", duplicates allowed
			r.Filter = gen.Pick(g, []string{"", "group#member", "user:*", "group#member,user:*", "group#member,group#member", "doc#viewer", "user:*,user:*",
				"group#member,doc#viewer", "group#viewer,doc#member", "doc#member,group#viewer,user:*", "group#member,group#viewer"})
		case 4:
			r.Kind = "ReadStartingWithUser"
			r.Type = gen.Pick(g, []string{"doc", "group"})
			r.Rel = gen.Pick(g, uRels)
			r.User = gen.Pick(g, []string{"user:a", "user:a,user:*", "group:1#member", "user:b,group:1#member,user:b", "doc:2", "user:*", "doc:2#member,group:1#viewer", "group:1#member,doc:2#viewer",
				// one object named twice, as an object and as usersets of it
				"group:1#member,group:1#viewer", "doc:2,doc:2#member", "doc:2#viewer,doc:2", "doc:2#member,doc:2#viewer,doc:2"})
			// object id set encoded in Filter: "-" = nil, "" = present but empty
			r.Filter = gen.Pick(g, []string{"-", "-", "", "1", "1,2", "2,9"})
			r.HC = g.Chance(0.5) // sorted ascending
		}
		if c := conds(); c != nil {
			r.Ctx = map[string]any{"conds": strings.Join(c, ","), "n": float64(len(c))}
		}
		sc.Requests = append(sc.Requests, r)
	}
	return sc
}

func reqConds(r gen.Request) []string {
	if r.Ctx == nil {
		return nil
	}
	n := int(r.Ctx["n"].(float64))
	if n == 0 {
		return []string{}
	}
	return strings.Split(r.Ctx["conds"].(string), ",")
}

func condOK(conds []string, tk *openfgav1.TupleKey) bool {
	if len(conds) == 0 {
		return true
	}
	for _, c := range conds {
		if c == tk.GetCondition().GetName() {
			return true
		}
	}
	return false
}

func refMatch(tk *openfgav1.TupleKey, obj, rel, user string) bool {
	if obj != "" {
		typ, id := tuple.SplitObject(obj)
		tt, tid := tuple.SplitObject(tk.GetObject())
		if typ != tt || (id != "" && id != tid) {
			return false
		}
	}
	if rel != "" && tk.GetRelation() != rel {
		return false
	}
	if user != "" {
		if strings.HasSuffix(user, ":") {
			if !strings.HasPrefix(tk.GetUser(), user) {
				return false
			}
		} else if tk.GetUser() != user {
			return false
		}
	}
	return true
}

func collect(ctx context.Context, it storage.TupleIterator, err error) ([]string, error) {
	if err != nil {
		return nil, err
	}
	defer it.Stop()
	var out []string
	for {
		t, err := it.Next(ctx)
		if err != nil {
			if errors.Is(err, storage.ErrIteratorDone) {
				return out, nil
			}
			return out, err
		}
		out = append(out, render(t.GetKey()))
	}
}

func c13Exec(t *testing.T, sc *gen.Scenario, trace bool) *harness.Outcome {
	out := &harness.Outcome{Shape: fmt.Sprintf("ops%d", len(sc.Ops))}
	msg := harness.Bubble(t, func(t *testing.T) {
		e := setup(t, sc, trace, out)
		if e == nil {
			simrt.End()
			return
		}
		defer e.finish(trace)
		ctx := context.Background()
		ref := newRefStore()
		for i, op := range sc.Ops {
			if op.Kind != "write" {
				continue
			}
			dels, wrs, opts := writeArgs(op)
			ok, _ := ref.apply(tuplesOf(op.Deletes), tuplesOf(op.Writes), op.N&1 != 0, op.N&2 != 0)
			for name, ds := range map[string]storage.OpenFGADatastore{"memory": e.mem, "sqlite": e.sql} {
				if err := ds.Write(ctx, e.store, dels, wrs, opts...); (err == nil) != ok {
					e.violate("write_outcome_differs", "backend="+name, "op %d: write outcome on %s err=%v, reference ok=%v", i, name, err, ok)
					return
				}
			}
		}
		var all []*openfgav1.TupleKey
		for _, tk := range ref.tuples {
			all = append(all, tk)
		}
		sort.Slice(all, func(i, j int) bool { return render(all[i]) < render(all[j]) })
		for i, r := range sc.Requests {
			conds := reqConds(r)
			var want []string
			results := map[string][]string{}
			errs := map[string]error{}
			ordered := false
			desc := ""
			for _, name := range []string{"memory", "sqlite"} {
				ds := map[string]storage.OpenFGADatastore{"memory": e.mem, "sqlite": e.sql}[name]
				var got []string
				var err error
				switch r.Kind {
				case "Read":
					desc = fmt.Sprintf("Read(object=%q relation=%q user=%q conditions=%q)", r.Obj, r.Rel, r.User, conds)
					it, e1 := ds.Read(ctx, e.store, storage.ReadFilter{Object: r.Obj, Relation: r.Rel, User: r.User, Conditions: conds}, storage.ReadOptions{})
					got, err = collect(ctx, it, e1)
				case "ReadPage":
					desc = fmt.Sprintf("ReadPage(object=%q user=%q conditions=%q page=%d)", r.Obj, r.User, conds, r.Limit)
					token := ""
					for page := 0; page < 500; page++ {
						ts, next, e1 := ds.ReadPage(ctx, e.store, storage.ReadFilter{Object: r.Obj, User: r.User, Conditions: conds}, storage.ReadPageOptions{Pagination: storage.PaginationOptions{PageSize: r.Limit, From: token}})
						if e1 != nil {
							err = e1
							break
						}
						if len(ts) > r.Limit {
							e.violate("page_too_large", "backend="+name, "request %d: %s on %s returned a page of %d", i, desc, name, len(ts))
							return
						}
						for _, t := range ts {
							got = append(got, render(t.GetKey()))
						}
						if next == "" {
							break
						}
						token = next
					}
				case "ReadUserTuple":
					desc = fmt.Sprintf("ReadUserTuple(%s#%s@%s conditions=%q)", r.Obj, r.Rel, r.User, conds)
					tp, e1 := ds.ReadUserTuple(ctx, e.store, storage.ReadUserTupleFilter{Object: r.Obj, Relation: r.Rel, User: r.User, Conditions: conds}, storage.ReadUserTupleOptions{})
					if e1 == nil {
						got = []string{render(tp.GetKey())}
					} else if !errors.Is(e1, storage.ErrNotFound) {
						err = e1
					}
				case "ReadUsersetTuples":
					var refs []*openfgav1.RelationReference
					for _, x := range strings.Split(r.Filter, ",") {
						switch {
						case x == "":
						case strings.HasSuffix(x, ":*"):
							refs = append(refs, &openfgav1.RelationReference{Type: strings.TrimSuffix(x, ":*"), RelationOrWildcard: &openfgav1.RelationReference_Wildcard{Wildcard: &openfgav1.Wildcard{}}})
						default:
							p := strings.SplitN(x, "#", 2)
							refs = append(refs, &openfgav1.RelationReference{Type: p[0], RelationOrWildcard: &openfgav1.RelationReference_Relation{Relation: p[1]}})
						}
					}
					desc = fmt.Sprintf("ReadUsersetTuples(%s#%s allowed=%q conditions=%q)", r.Obj, r.Rel, r.Filter, conds)
					it, e1 := ds.ReadUsersetTuples(ctx, e.store, storage.ReadUsersetTuplesFilter{Object: r.Obj, Relation: r.Rel, AllowedUserTypeRestrictions: refs, Conditions: conds}, storage.ReadUsersetTuplesOptions{})
					got, err = collect(ctx, it, e1)
				case "ReadStartingWithUser":
					var uf []*openfgav1.ObjectRelation
					for _, x := range strings.Split(r.User, ",") {
						o, rel := tuple.SplitObjectRelation(x)
						uf = append(uf, &openfgav1.ObjectRelation{Object: o, Relation: rel})
					}
					var ids storage.SortedSet
					if r.Filter != "-" {
						ids = storage.NewSortedSet()
						for _, x := range strings.Split(r.Filter, ",") {
							if x != "" {
								ids.Add(x)
							}
						}
					}
					ordered = r.HC
					desc = fmt.Sprintf("ReadStartingWithUser(%s#%s users=%q objectIDs=%q conditions=%q sorted=%v)", r.Type, r.Rel, r.User, r.Filter, conds, r.HC)
					it, e1 := ds.ReadStartingWithUser(ctx, e.store, storage.ReadStartingWithUserFilter{ObjectType: r.Type, Relation: r.Rel, UserFilter: uf, ObjectIDs: ids, Conditions: conds}, storage.ReadStartingWithUserOptions{WithResultsSortedAscending: r.HC})
					got, err = collect(ctx, it, e1)
				}
				results[name], errs[name] = got, err
			}
			// reference
			for _, tk := range all {
				switch r.Kind {
				case "Read", "ReadPage", "ReadUserTuple":
					if refMatch(tk, r.Obj, r.Rel, r.User) && condOK(conds, tk) {
						want = append(want, render(tk))
					}
				case "ReadUsersetTuples":
					if !refMatch(tk, r.Obj, r.Rel, "") || !condOK(conds, tk) {
						continue
					}
					u := tk.GetUser()
					isUserset := strings.Contains(u, "#")
					isWild := strings.HasSuffix(u, ":*")
					if !isUserset && !isWild {
						continue
					}
					if r.Filter == "" {
						want = append(want, render(tk))
						continue
					}
					for _, x := range strings.Split(r.Filter, ",") {
						if isWild && x == u {
							want = append(want, render(tk))
							break
						}
						if isUserset {
							_, urel := tuple.SplitObjectRelation(u)
							if x == tuple.GetType(u)+"#"+urel {
								want = append(want, render(tk))
								break
							}
						}
					}
				case "ReadStartingWithUser":
					typ, id := tuple.SplitObject(tk.GetObject())
					if typ != r.Type || tk.GetRelation() != r.Rel || !condOK(conds, tk) {
						continue
					}
					okUser := false
					for _, x := range strings.Split(r.User, ",") {
						if x == tk.GetUser() {
							okUser = true
						}
					}
					if !okUser {
						continue
					}
					if r.Filter != "-" {
						in := false
						for _, x := range strings.Split(r.Filter, ",") {
							if x != "" && x == id {
								in = true
							}
						}
						if !in {
							continue
						}
					}
					want = append(want, render(tk))
				}
			}
			out.Evals++
			e.run.Log("read", fmt.Sprintf("r%d %s mem=%d sql=%d ref=%d", i, r.Kind, len(results["memory"]), len(results["sqlite"]), len(want)))
			norm := func(xs []string) string {
				c := append([]string(nil), xs...)
				sort.Strings(c)
				return strings.Join(c, " ; ")
			}
			if (errs["memory"] == nil) != (errs["sqlite"] == nil) {
				e.violate("backends_differ", "op="+r.Kind+" error", "request %d: %s: memory err=%v, sqlite err=%v", i, desc, errs["memory"], errs["sqlite"])
				return
			}
			if errs["memory"] != nil {
				simrt.Probe("read_rejected_by_both")
				continue
			}
			if r.Kind == "ReadUserTuple" {
				// "one tuple that matches": any one of the matching tuples
				for name, got := range results {
					if (len(got) == 0) != (len(want) == 0) || (len(got) == 1 && !contains(want, got[0])) {
						e.violate("differs_from_documented", "op="+r.Kind+" backend="+name, "request %d: %s on %s returned %v; matching tuples: %v", i, desc, name, got, want)
						return
					}
				}
				continue
			}
			if norm(results["memory"]) != norm(results["sqlite"]) {
				tag := ""
				if norm(results["memory"]) == norm(want) {
					tag = " sqlite_off"
				} else if norm(results["sqlite"]) == norm(want) {
					tag = " memory_off"
				}
				e.violate("backends_differ", "op="+r.Kind+tag+c13Tags(r, conds), "request %d: %s\n  memory:    %v\n  sqlite:    %v\n  documented: %v", i, desc, results["memory"], results["sqlite"], want)
				return
			}
			if norm(results["memory"]) != norm(want) {
				e.violate("differs_from_documented", "op="+r.Kind+c13Tags(r, conds), "request %d: %s\n  both backends: %v\n  documented:    %v", i, desc, results["memory"], want)
				return
			}
			if ordered {
				for name, got := range results {
					for k := 1; k < len(got); k++ {
						if objectOf(got[k-1]) > objectOf(got[k]) {
							e.violate("not_sorted", "op="+r.Kind+" backend="+name, "request %d: %s on %s is not sorted by object: %v", i, desc, name, got)
							return
						}
					}
				}
			}
		}
		out.NonTrivial = len(all) > 0
	})
	if msg != "" && out.Violation == nil && out.Infra == "" {
		out.Infra = "bubble: " + msg
	}
	return out
}

func c13Tags(r gen.Request, conds []string) string {
	s := ""
	if conds != nil {
		if len(conds) == 0 {
			s += " conditions=empty_list"
		} else {
			s += " conditions=given"
		}
	}
	if r.Kind == "ReadStartingWithUser" && r.Filter == "" {
		s += " object_ids=empty_set"
	}
	if r.Kind == "ReadUsersetTuples" && strings.Contains(r.Filter, ",") {
		p := strings.Split(r.Filter, ",")
		if p[0] == p[1] {
			s += " duplicate_restrictions"
		}
	}
	return s
}

func objectOf(rendered string) string { return rendered[:strings.Index(rendered, "#")] }

func contains(xs []string, x string) bool {
	for _, y := range xs {
		if y == x {
			return true
		}
	}
	return false
}

package hsql

import (
	"context"
	"fmt"
	"sort"
	"strings"
	"testing"
	"time"

	openfgav1 "github.com/openfga/api/proto/openfga/v1"
	"google.golang.org/protobuf/types/known/wrapperspb"

	"github.com/openfga/openfga/internal/verifsim/gen"
	"github.com/openfga/openfga/internal/verifsim/harness"
	rm "github.com/openfga/openfga/internal/verifsim/refmodel"
	"github.com/openfga/openfga/internal/verifsim/simrt"
	"github.com/openfga/openfga/pkg/storage"
)

// C14: following continuation tokens visits every item exactly once, in the documented order.
//
// Data: n tuples (bulk writes, up to ~200), m models, k stores, the changelog those writes produce.
// For three page sizes per run (1, a seed-chosen one, one larger than the data) the four paginated
// APIs are followed from the first page until the token is empty (Read, ListStores,
// ReadAuthorizationModels) or a page is empty (ReadChanges), on both backends. Token hygiene: a
// ReadChanges token is replayed with another type filter (must be rejected); tokens are mutated
// (truncated, a character changed, swapped between APIs) and must be rejected or, if accepted, must
// not make an item appear twice or out of order relative to what was already seen.
func c14Gen(runSeed uint64, tier string) *gen.Scenario {
	g := gen.New(runSeed ^ 0xc14)
	sc := &gen.Scenario{Version: 1, Harness: "hsql", Knobs: map[string]int64{}}
	k := sc.Knobs
	k["tuples"] = int64([]int{0, 1, 7, 40, 100, 101, 230}[g.Intn(7)])
	k["models"] = int64([]int{0, 1, 3, 12, 51}[g.Intn(5)])
	k["stores"] = int64([]int{1, 2, 9, 30}[g.Intn(4)])
	k["page"] = int64(2 + g.Intn(60))
	// some of the extra stores are deleted again before listing (and some share a name)
	k["deleted"] = int64(g.Intn(4))
	k["idsel"] = int64(g.Intn(1 << 30))
	k["filter"] = int64(g.Intn(3)) // Read: none / object type+user / object
	k["mut_seed"] = int64(g.Intn(1 << 30))
	k["delay_mode"] = int64(g.Intn(simrt.NumModes))
	// concurrent writers (memory backend, whose source is compiled with a scheduling point before every
	// lock operation): the changelog they produce must still be paged without loss
	if g.Chance(0.5) {
		k["writers"] = int64(2 + g.Intn(4))
		k["max_yield_ns"] = []int64{20000, 400000, 900000}[g.Intn(3)]
	}
	return sc
}

func c14Tuples(n int) []T {
	var out []T
	for i := 0; len(out) < n; i++ {
		typ := []string{"doc", "group", "docs"}[i%3] // "docs": a type whose name starts with another type's name
		t := T{Obj: fmt.Sprintf("%s:%d", typ, i/18), Rel: []string{"viewer", "member"}[(i/3)%2], User: fmt.Sprintf("user:%c", 'a'+byte((i/6)%3)), X: -1}
		if i%5 == 0 {
			t.Cond, t.X = "c1", int64(i%4)
		}
		out = append(out, t)
	}
	return out
}

func mutateToken(run *simrt.Run, tok string, i int) string {
	if tok == "" {
		return "AAAA"
	}
	switch run.Pick(4, "mut", i) {
	case 0:
		return tok[:len(tok)/2]
	case 1:
		b := []byte(tok)
		p := run.Pick(len(b), "mutpos", i)
		if b[p] == 'A' {
			b[p] = 'B'
		} else {
			b[p] = 'A'
		}
		return string(b)
	case 2:
		return tok + tok
	}
	return "!!not-base64!!"
}

func c14Exec(t *testing.T, sc *gen.Scenario, trace bool) *harness.Outcome {
	out := &harness.Outcome{Shape: fmt.Sprintf("t%d m%d s%d p%d", sc.Knob("tuples", 0), sc.Knob("models", 0), sc.Knob("stores", 1), sc.Knob("page", 2))}
	msg := harness.Bubble(t, func(t *testing.T) {
		e := setup(t, sc, trace, out)
		if e == nil {
			simrt.End()
			return
		}
		defer e.finish(trace)
		bs, err := e.servers()
		if err != nil {
			out.Infra = "servers: " + err.Error()
			return
		}
		defer func() {
			for _, b := range bs {
				b.s.Close()
			}
		}()
		ctx := context.Background()
		tuples := c14Tuples(int(sc.Knob("tuples", 0)))
		for _, b := range bs {
			// ---- data
			var changesWant []string
			writers := int(sc.Knob("writers", 0))
			if b.name != "memory" {
				writers = 0
			}
			var batches []gen.Op
			for i := 0; i < len(tuples); i += 8 {
				j := i + 8
				if j > len(tuples) {
					j = len(tuples)
				}
				op := gen.Op{}
				for _, t := range tuples[i:j] {
					op.Writes = append(op.Writes, toRM(t))
				}
				batches = append(batches, op)
			}
			if writers > 1 {
				done := make(chan error, writers)
				for w := 0; w < writers; w++ {
					w := w
					e.run.Go(fmt.Sprintf("writer%d", w), func() {
						var err error
						for k := w; k < len(batches) && err == nil; k += writers {
							err = srvWrite(ctx, b, e.store, batches[k])
						}
						done <- err
					})
				}
				for w := 0; w < writers; w++ {
					if err := <-done; err != nil {
						out.Infra = fmt.Sprintf("%s: concurrent write: %v", b.name, err)
						return
					}
				}
				simrt.Probe("concurrent_writer_runs")
				if chs, _, err := b.ds.ReadChanges(ctx, e.store, storage.ReadChangesFilter{}, storage.ReadChangesOptions{Pagination: storage.PaginationOptions{PageSize: 100000}}); err == nil {
					for k := 1; k < len(chs); k++ {
						if chs[k].GetTimestamp().AsTime().Before(chs[k-1].GetTimestamp().AsTime()) {
							simrt.Probe("changelog_timestamp_inversions")
						}
						if chs[k].GetTimestamp().AsTime().UnixMilli() < chs[k-1].GetTimestamp().AsTime().UnixMilli() {
							simrt.Probe("changelog_millisecond_inversions")
						}
					}
				}
			} else {
				for _, op := range batches {
					if err := srvWrite(ctx, b, e.store, op); err != nil {
						out.Infra = fmt.Sprintf("%s: bulk write: %v", b.name, err)
						return
					}
					time.Sleep(time.Millisecond)
				}
			}
			for _, t := range tuples {
				changesWant = append(changesWant, render(t.TupleKey()))
			}
			modelIDs := []string{b.modelID}
			for i := 0; i < int(sc.Knob("models", 0)); i++ {
				m := universeModel()
				resp, err := b.s.WriteAuthorizationModel(ctx, &openfgav1.WriteAuthorizationModelRequest{StoreId: e.store, SchemaVersion: m.GetSchemaVersion(), TypeDefinitions: m.GetTypeDefinitions(), Conditions: m.GetConditions()})
				if err != nil {
					out.Infra = fmt.Sprintf("%s: write model: %v", b.name, err)
					return
				}
				modelIDs = append(modelIDs, resp.GetAuthorizationModelId())
			}
			storeIDs := []string{e.store}
			for i := 1; i < int(sc.Knob("stores", 1)); i++ {
				resp, err := b.s.CreateStore(ctx, &openfgav1.CreateStoreRequest{Name: fmt.Sprintf("store-%02d", i%4)})
				if err != nil {
					out.Infra = fmt.Sprintf("%s: create store: %v", b.name, err)
					return
				}
				storeIDs = append(storeIDs, resp.GetId())
				time.Sleep(time.Millisecond)
			}
			// some stores share a name; some are deleted again: a deleted store is in no listing, whatever
			// the filter
			storeName := map[string]string{e.store: "s1"}
			for i, id := range storeIDs[1:] {
				storeName[id] = fmt.Sprintf("store-%02d", (i+1)%4)
			}
			var deletedIDs []string
			for d := int(sc.Knob("deleted", 0)); d > 0 && len(storeIDs) > 1; d-- {
				i := 1 + e.run.Pick(len(storeIDs)-1, "delstore", d)
				if _, err := b.s.DeleteStore(ctx, &openfgav1.DeleteStoreRequest{StoreId: storeIDs[i]}); err != nil {
					e.violate("unexpected_error:DeleteStore", "backend="+b.name, "DeleteStore(%s) on %s: %v", storeIDs[i], b.name, err)
					return
				}
				deletedIDs = append(deletedIDs, storeIDs[i])
				storeIDs = append(storeIDs[:i:i], storeIDs[i+1:]...)
			}
			sort.Strings(storeIDs)
			// the id-filtered listing (what the access-control layer asks the datastore for): a selection
			// of live, deleted and never-created ids
			idSel := append([]string{"01HVXR1FST0RE0000000000ZZZ"}, deletedIDs...)
			var idWant []string
			for i, id := range storeIDs {
				if (sc.Knob("idsel", 0)>>(uint(i)%30))&1 == 1 {
					idSel = append(idSel, id)
					idWant = append(idWant, id)
				}
			}
			// (the filter arrives in whatever order the access-control lookup produced it; the listing is by id)
			for i := len(idSel) - 1; i > 0; i-- {
				j := e.run.Pick(i+1, "idsel-order", i)
				idSel[i], idSel[j] = idSel[j], idSel[i]
			}
			// ---- expected listings
			var readWant []string
			var tk *openfgav1.ReadRequestTupleKey
			switch sc.Knob("filter", 0) {
			case 1:
				tk = &openfgav1.ReadRequestTupleKey{Object: "doc:", User: "user:a"}
			case 2:
				tk = &openfgav1.ReadRequestTupleKey{Object: "group:1"}
			}
			for _, t := range tuples {
				if tk == nil || (tk.GetUser() != "" && rm.ObjType(t.Obj) == "doc" && t.User == "user:a") || (tk.GetUser() == "" && t.Obj == tk.GetObject()) {
					readWant = append(readWant, render(t.TupleKey()))
				}
			}
			var modelsWant []string
			for i := len(modelIDs) - 1; i >= 0; i-- {
				modelsWant = append(modelsWant, modelIDs[i])
			}
			for _, page := range []int32{1, int32(sc.Knob("page", 2)), 100} {
				// -- generic follower
				follow := func(api string, ordered bool, want []string, fetch func(token string) ([]string, string, error), endOnEmptyPage bool) bool {
					var got []string
					token := ""
					var tokens []string
					for i := 0; i < 2000; i++ {
						items, next, err := fetch(token)
						if err != nil {
							e.violate("unexpected_error:"+api, "backend="+b.name, "%s on %s (page size %d) failed at page %d: %v", api, b.name, page, i, err)
							return false
						}
						if int32(len(items)) > page {
							e.violate("page_too_large", "api="+api+" backend="+b.name, "%s on %s: page %d holds %d items with page size %d", api, b.name, i, len(items), page)
							return false
						}
						got = append(got, items...)
						if (endOnEmptyPage && len(items) == 0) || (!endOnEmptyPage && next == "") {
							break
						}
						if next != "" {
							tokens = append(tokens, next)
						}
						token = next
					}
					out.Evals++
					e.run.Log("pages", fmt.Sprintf("%s %s page=%d items=%d", b.name, api, page, len(got)))
					g, w := append([]string(nil), got...), append([]string(nil), want...)
					if !ordered {
						sort.Strings(g)
						sort.Strings(w)
					}
					if strings.Join(g, ";") != strings.Join(w, ";") {
						class := "pagination_wrong_items"
						if len(g) == len(w) && ordered {
							class = "pagination_wrong_order"
						}
						seen := map[string]int{}
						for _, x := range got {
							seen[x]++
							if seen[x] == 2 {
								class = "pagination_duplicate"
							}
						}
						e.violate(class, fmt.Sprintf("api=%s backend=%s", api, b.name), "%s on %s with page size %d returned %d items, expected %d:\n  got:  %v\n  want: %v", api, b.name, page, len(got), len(want), got, want)
						return false
					}
					// token hygiene: a mutated token is rejected, or at least never misread into a panic or a hang
					if len(tokens) > 0 && api != "ListStores[ids]" { // (datastore-level tokens are not the API's opaque tokens)
						bad := mutateToken(e.run, tokens[0], int(page))
						_, _, err := fetch(bad)
						if err == nil {
							simrt.Probe("mutated_token_accepted_" + api)
							if bad == "!!not-base64!!" || bad == tokens[0][:len(tokens[0])/2] {
								e.violate("malformed_token_accepted", "api="+api+" backend="+b.name, "%s on %s accepted the malformed continuation token %q", api, b.name, bad)
								return false
							}
						} else {
							simrt.Probe("mutated_token_rejected")
						}
					}
					return true
				}
				if !follow("Read", false, readWant, func(token string) ([]string, string, error) {
					resp, err := b.s.Read(ctx, &openfgav1.ReadRequest{StoreId: e.store, TupleKey: tk, PageSize: wrapperspb.Int32(page), ContinuationToken: token})
					if err != nil {
						return nil, "", err
					}
					var items []string
					for _, t := range resp.GetTuples() {
						items = append(items, render(t.GetKey()))
					}
					return items, resp.GetContinuationToken(), nil
				}, false) {
					return
				}
				for _, typ := range []string{"", "doc"} {
					var want []string
					for _, c := range changesWant {
						if typ == "" || strings.HasPrefix(c, typ+":") {
							want = append(want, c)
						}
					}
					var firstToken string
					if !follow("ReadChanges", writers <= 1, want, func(token string) ([]string, string, error) {
						resp, err := b.s.ReadChanges(ctx, &openfgav1.ReadChangesRequest{StoreId: e.store, Type: typ, PageSize: wrapperspb.Int32(page), ContinuationToken: token})
						if err != nil {
							return nil, "", err
						}
						var items []string
						for _, c := range resp.GetChanges() {
							items = append(items, render(c.GetTupleKey()))
						}
						if firstToken == "" && len(items) > 0 {
							firstToken = resp.GetContinuationToken()
						}
						return items, resp.GetContinuationToken(), nil
					}, true) {
						return
					}
					if firstToken != "" {
						other := "group"
						if _, err := b.s.ReadChanges(ctx, &openfgav1.ReadChangesRequest{StoreId: e.store, Type: other, PageSize: wrapperspb.Int32(page), ContinuationToken: firstToken}); err == nil {
							e.violate("token_accepted_for_other_type", "backend="+b.name, "ReadChanges on %s accepted a continuation token issued for type filter %q with type filter %q", b.name, typ, other)
							return
						}
					}
				}
				if !follow("ReadAuthorizationModels", true, modelsWant, func(token string) ([]string, string, error) {
					resp, err := b.s.ReadAuthorizationModels(ctx, &openfgav1.ReadAuthorizationModelsRequest{StoreId: e.store, PageSize: wrapperspb.Int32(page), ContinuationToken: token})
					if err != nil {
						return nil, "", err
					}
					var items []string
					for _, m := range resp.GetAuthorizationModels() {
						items = append(items, m.GetId())
					}
					return items, resp.GetContinuationToken(), nil
				}, false) {
					return
				}
				if !follow("ListStores", true, storeIDs, func(token string) ([]string, string, error) {
					resp, err := b.s.ListStores(ctx, &openfgav1.ListStoresRequest{PageSize: wrapperspb.Int32(page), ContinuationToken: token})
					if err != nil {
						return nil, "", err
					}
					var items []string
					for _, s := range resp.GetStores() {
						items = append(items, s.GetId())
					}
					return items, resp.GetContinuationToken(), nil
				}, false) {
					return
				}
				if !follow("ListStores[ids]", true, idWant, func(token string) ([]string, string, error) {
					stores, next, err := b.ds.ListStores(ctx, storage.ListStoresOptions{IDs: idSel, Pagination: storage.PaginationOptions{PageSize: int(page), From: token}})
					if err != nil {
						return nil, "", err
					}
					var items []string
					for _, s := range stores {
						items = append(items, s.GetId())
					}
					return items, next, nil
				}, false) {
					return
				}
				if len(storeIDs) > 1 {
					name := storeName[storeIDs[len(storeIDs)-1]]
					if storeIDs[len(storeIDs)-1] == e.store {
						name = storeName[storeIDs[0]]
					}
					var nameWant []string
					for _, id := range storeIDs {
						if storeName[id] == name {
							nameWant = append(nameWant, id)
						}
					}
					if !follow("ListStores[name]", true, nameWant, func(token string) ([]string, string, error) {
						resp, err := b.s.ListStores(ctx, &openfgav1.ListStoresRequest{Name: name, PageSize: wrapperspb.Int32(page), ContinuationToken: token})
						if err != nil {
							return nil, "", err
						}
						var items []string
						for _, s := range resp.GetStores() {
							items = append(items, s.GetId())
						}
						return items, resp.GetContinuationToken(), nil
					}, false) {
						return
					}
				}
			}
			for _, id := range deletedIDs {
				if _, err := b.s.GetStore(ctx, &openfgav1.GetStoreRequest{StoreId: id}); err == nil {
					e.violate("deleted_store_visible", "api=GetStore backend="+b.name, "GetStore(%s) on %s succeeds after DeleteStore", id, b.name)
					return
				}
			}
			out.NonTrivial = true
		}
	})
	if msg != "" && out.Violation == nil && out.Infra == "" {
		out.Infra = "bubble: " + msg
	}
	return out
}

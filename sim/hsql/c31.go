package hsql

import (
	"context"
	"fmt"
	"strings"
	"testing"

	openfgav1 "github.com/openfga/api/proto/openfga/v1"
	"google.golang.org/protobuf/encoding/protojson"
	"google.golang.org/protobuf/types/known/structpb"

	"github.com/openfga/openfga/internal/verifsim/gen"
	"github.com/openfga/openfga/internal/verifsim/harness"
	"github.com/openfga/openfga/internal/verifsim/simrt"
)

// C31: assertions are stored and returned verbatim per (store, model).
//
// Two stores x two models on each backend; an interleaved history of WriteAssertions (0-6 assertions
// with expectations, contextual tuples and context) and ReadAssertions; for SQLite the write may be
// hit by an injected driver failure. Oracle: a read returns exactly the last list successfully
// written for that pair (empty if never written); a failed write leaves the previous list.
func c31Gen(runSeed uint64, tier string) *gen.Scenario {
	g := gen.New(runSeed ^ 0xc31)
	sc := &gen.Scenario{Version: 1, Harness: "hsql", Knobs: map[string]int64{}}
	n := 8 + g.Intn(16)
	for i := 0; i < n; i++ {
		op := gen.Op{Store: g.Intn(2), Model: g.Intn(2)}
		if g.Chance(0.5) {
			op.Kind = "assert_w"
			op.N = g.Intn(7)
			op.S = fmt.Sprintf("v%d", i)
			if g.Chance(0.25) {
				op.Dur = int64(1 + g.Intn(6)) // fail at the k-th driver operation (SQLite only)
			}
		} else {
			op.Kind = "assert_r"
		}
		sc.Ops = append(sc.Ops, op)
	}
	sc.Knobs["delay_mode"] = int64(g.Intn(simrt.NumModes))
	return sc
}

func mkAssertions(tag string, n int) []*openfgav1.Assertion {
	var out []*openfgav1.Assertion
	for k := 0; k < n; k++ {
		a := &openfgav1.Assertion{
			TupleKey:    &openfgav1.AssertionTupleKey{Object: fmt.Sprintf("doc:%s-%d", tag, k), Relation: []string{"viewer", "member"}[k%2], User: fmt.Sprintf("user:%c", 'a'+byte(k%3))},
			Expectation: k%2 == 0,
		}
		if k%3 == 0 {
			a.ContextualTuples = []*openfgav1.TupleKey{
				{Object: "doc:1", Relation: "viewer", User: "user:a"},
				T{Obj: "group:1", Rel: "member", User: "user:b", Cond: "c1", X: int64(k)}.TupleKey(),
			}
		}
		if k%2 == 1 {
			st, _ := structpb.NewStruct(map[string]any{"x": float64(k), "nested": map[string]any{"tag": tag, "list": []any{float64(1), "two", true}}})
			a.Context = st
		}
		out = append(out, a)
	}
	return out
}

func renderAssertions(as []*openfgav1.Assertion) string {
	var parts []string
	for _, a := range as {
		b, _ := protojson.Marshal(a)
		parts = append(parts, strings.ReplaceAll(string(b), " ", ""))
	}
	return strings.Join(parts, "\n")
}

func c31Exec(t *testing.T, sc *gen.Scenario, trace bool) *harness.Outcome {
	out := &harness.Outcome{Shape: fmt.Sprintf("ops%d", len(sc.Ops))}
	msg := harness.Bubble(t, func(t *testing.T) {
		e := setup(t, sc, trace, out)
		if e == nil {
			simrt.End()
			return
		}
		defer e.finish(trace)
		bs, err := e.servers()
		if err != nil {
			out.Infra = "servers: " + err.Error()
			return
		}
		defer func() {
			for _, b := range bs {
				b.s.Close()
			}
		}()
		ctx := context.Background()
		for _, b := range bs {
			// second store and second model
			st2, err := b.s.CreateStore(ctx, &openfgav1.CreateStoreRequest{Name: "second"})
			if err != nil {
				out.Infra = "create store: " + err.Error()
				return
			}
			stores := []string{e.store, st2.GetId()}
			models := [2][2]string{}
			for si, sid := range stores {
				for mi := 0; mi < 2; mi++ {
					m := universeModel()
					resp, err := b.s.WriteAuthorizationModel(ctx, &openfgav1.WriteAuthorizationModelRequest{StoreId: sid, SchemaVersion: m.GetSchemaVersion(), TypeDefinitions: m.GetTypeDefinitions(), Conditions: m.GetConditions()})
					if err != nil {
						out.Infra = "write model: " + err.Error()
						return
					}
					models[si][mi] = resp.GetAuthorizationModelId()
				}
			}
			last := map[[2]int]string{}
			// a response that was handed out stays what it was, whatever is written afterwards (a caller
			// may still be marshalling it)
			type heldResp struct {
				resp *openfgav1.ReadAssertionsResponse
				was  string
				op   int
			}
			var held []heldResp
			stillIntact := func(at int) bool {
				for _, h := range held {
					if now := renderAssertions(h.resp.GetAssertions()); now != h.was {
						e.violate("response_changed_after_return", "backend="+b.name, "the ReadAssertions response returned at op %d on %s reads differently after op %d:\n%s\nwhen it was returned:\n%s", h.op, b.name, at, now, h.was)
						return false
					}
				}
				return true
			}
			for i, op := range sc.Ops {
				key := [2]int{op.Store, op.Model}
				sid, mid := stores[op.Store], models[op.Store][op.Model]
				switch op.Kind {
				case "assert_w":
					as := mkAssertions(op.S, op.N)
					fail := 0
					if b.name == "sqlite" {
						fail = int(op.Dur)
					}
					e.sim.Arm(fail, 0)
					_, err := b.s.WriteAssertions(ctx, &openfgav1.WriteAssertionsRequest{StoreId: sid, AuthorizationModelId: mid, Assertions: as})
					_, fired := e.sim.Disarm()
					out.Evals++
					e.run.Log("assert_w", fmt.Sprintf("%s op%d s%d m%d n=%d err=%v fired=%s", b.name, i, op.Store, op.Model, op.N, err != nil, fired))
					if err != nil {
						if fired == "" {
							e.violate("valid_assertions_rejected", "backend="+b.name, "op %d on %s: WriteAssertions(%d assertions) failed: %v", i, b.name, op.N, err)
							return
						}
						simrt.Probe("assertion_write_failed_by_fault")
						break
					}
					last[key] = renderAssertions(as)
					if !stillIntact(i) {
						return
					}
				case "assert_r":
					resp, err := b.s.ReadAssertions(ctx, &openfgav1.ReadAssertionsRequest{StoreId: sid, AuthorizationModelId: mid})
					out.Evals++
					if err != nil {
						e.violate("unexpected_error:readassertions", "backend="+b.name, "op %d on %s: ReadAssertions: %v", i, b.name, err)
						return
					}
					got := renderAssertions(resp.GetAssertions())
					e.run.Log("assert_r", fmt.Sprintf("%s op%d s%d m%d n=%d", b.name, i, op.Store, op.Model, len(resp.GetAssertions())))
					held = append(held, heldResp{resp, got, i})
					if got != last[key] {
						tag := ""
						for k, v := range last {
							if k != key && v == got && got != "" {
								tag = " equals_other_pair"
							}
						}
						e.violate("assertions_differ", "backend="+b.name+tag, "op %d on %s: ReadAssertions(store %d, model %d) returned\n%s\nthe last list written for this pair is\n%s", i, b.name, op.Store, op.Model, got, last[key])
						return
					}
				}
			}
			out.NonTrivial = true
		}
	})
	if msg != "" && out.Violation == nil && out.Infra == "" {
		out.Infra = "bubble: " + msg
	}
	return out
}

// Package hsql hosts the storage-backend checks (C12–C15, C18, C31): the real SQLite datastore runs on a
// real SQLite file through a database/sql driver wrapper the simulator owns — every statement, Begin,
// Commit and Rollback is a point where the seed may add latency, return an error, or kill the
// connection ("the process or the database connection fails at any point during the write").
package hsql

import (
	"context"
	"database/sql"
	"database/sql/driver"
	"errors"
	"fmt"
	"io"
	"strings"
	"sync"
	"time"

	_ "modernc.org/sqlite"

	"github.com/openfga/openfga/internal/verifsim/simrt"
)

var ErrSimSQL = errors.New("sim: injected SQL error")

// Fault plan of one run: fail the n-th driver operation counted from Arm() (1-based; 0 = never).
type SimSQL struct {
	mu       sync.Mutex
	inner    driver.Driver
	run      *simrt.Run
	armed    bool
	count    int
	FailAt   int
	Mode     int // 0 = statement error, 1 = connection dies (ErrBadConn-like, connection closed), 2 = commit succeeds but its acknowledgement is lost
	Fired    string
	Ops      []string // operations seen since Arm (kinds and the first word of the statement)
	Latency  time.Duration
	conns    []*simConn
}

func innerDriver() driver.Driver {
	db, err := sql.Open("sqlite", ":memory:")
	if err != nil {
		panic(err)
	}
	defer db.Close()
	return db.Driver()
}

func NewSimSQL(run *simrt.Run) *SimSQL { return &SimSQL{inner: innerDriver(), run: run} }

// Arm starts counting operations (call right before the operation under test).
func (s *SimSQL) Arm(failAt, mode int) {
	s.mu.Lock()
	s.armed, s.count, s.FailAt, s.Mode, s.Fired, s.Ops = true, 0, failAt, mode, "", nil
	s.mu.Unlock()
}

func (s *SimSQL) Disarm() (ops []string, fired string) {
	s.mu.Lock()
	defer s.mu.Unlock()
	s.armed = false
	return s.Ops, s.Fired
}

// point is called at every driver operation. It returns (fail, lostAck).
func (s *SimSQL) point(ctx context.Context, kind, stmt string) (bool, bool) {
	if s.Latency > 0 && s.run != nil {
		_ = s.run.SleepUnique(nil, time.Duration(s.run.H("sqllat", kind, stmt)%uint64(s.Latency))+1)
	}
	s.mu.Lock()
	defer s.mu.Unlock()
	if !s.armed {
		return false, false
	}
	s.count++
	word := stmt
	if i := strings.IndexAny(stmt, " \n\t"); i > 0 {
		word = stmt[:i]
	}
	s.Ops = append(s.Ops, kind+":"+word)
	if s.FailAt > 0 && s.count == s.FailAt {
		s.Fired = fmt.Sprintf("%s:%s#%d", kind, word, s.count)
		if s.Mode == 2 && kind == "commit" {
			return false, true
		}
		return true, false
	}
	return false, false
}

type simConnector struct {
	s   *SimSQL
	dsn string
}

func (c *simConnector) Connect(ctx context.Context) (driver.Conn, error) {
	in, err := c.s.inner.Open(c.dsn)
	if err != nil {
		return nil, err
	}
	sc := &simConn{s: c.s, in: in}
	c.s.mu.Lock()
	c.s.conns = append(c.s.conns, sc)
	c.s.mu.Unlock()
	return sc, nil
}
func (c *simConnector) Driver() driver.Driver { return c.s.inner }

// OpenDB returns a *sql.DB on the SQLite file through the simulated driver.
func (s *SimSQL) OpenDB(dsn string) *sql.DB { return sql.OpenDB(&simConnector{s: s, dsn: dsn}) }

type simConn struct {
	s    *SimSQL
	in   driver.Conn
	dead bool
}

func (c *simConn) fail(kind string) error {
	if c.s.Mode >= 1 {
		// the connection is gone: SQLite rolls an open transaction back when the connection closes
		c.dead = true
		_ = c.in.Close()
		return fmt.Errorf("%w: connection lost at %s", ErrSimSQL, kind)
	}
	return fmt.Errorf("%w at %s", ErrSimSQL, kind)
}

func (c *simConn) Prepare(q string) (driver.Stmt, error) { return c.PrepareContext(context.Background(), q) }
func (c *simConn) PrepareContext(ctx context.Context, q string) (driver.Stmt, error) {
	if c.dead {
		return nil, driver.ErrBadConn
	}
	var st driver.Stmt
	var err error
	if p, ok := c.in.(driver.ConnPrepareContext); ok {
		st, err = p.PrepareContext(ctx, q)
	} else {
		st, err = c.in.Prepare(q)
	}
	if err != nil {
		return nil, err
	}
	return &simStmt{c: c, in: st, q: q}, nil
}
func (c *simConn) Close() error {
	if c.dead {
		return nil
	}
	c.dead = true
	return c.in.Close()
}
func (c *simConn) Begin() (driver.Tx, error) { return c.BeginTx(context.Background(), driver.TxOptions{}) }
func (c *simConn) BeginTx(ctx context.Context, o driver.TxOptions) (driver.Tx, error) {
	if c.dead {
		return nil, driver.ErrBadConn
	}
	if f, _ := c.s.point(ctx, "begin", ""); f {
		return nil, c.fail("begin")
	}
	var tx driver.Tx
	var err error
	if b, ok := c.in.(driver.ConnBeginTx); ok {
		tx, err = b.BeginTx(ctx, o)
	} else {
		tx, err = c.in.Begin()
	}
	if err != nil {
		return nil, err
	}
	return &simTx{c: c, in: tx}, nil
}
func (c *simConn) ExecContext(ctx context.Context, q string, args []driver.NamedValue) (driver.Result, error) {
	if c.dead {
		return nil, driver.ErrBadConn
	}
	if f, _ := c.s.point(ctx, "exec", q); f {
		return nil, c.fail("exec")
	}
	if e, ok := c.in.(driver.ExecerContext); ok {
		return e.ExecContext(ctx, q, args)
	}
	return nil, driver.ErrSkip
}
func (c *simConn) QueryContext(ctx context.Context, q string, args []driver.NamedValue) (driver.Rows, error) {
	if c.dead {
		return nil, driver.ErrBadConn
	}
	if f, _ := c.s.point(ctx, "query", q); f {
		return nil, c.fail("query")
	}
	if e, ok := c.in.(driver.QueryerContext); ok {
		return e.QueryContext(ctx, q, args)
	}
	return nil, driver.ErrSkip
}
func (c *simConn) Ping(ctx context.Context) error {
	if c.dead {
		return driver.ErrBadConn
	}
	if p, ok := c.in.(driver.Pinger); ok {
		return p.Ping(ctx)
	}
	return nil
}
func (c *simConn) IsValid() bool { return !c.dead }
func (c *simConn) ResetSession(ctx context.Context) error {
	if c.dead {
		return driver.ErrBadConn
	}
	if r, ok := c.in.(driver.SessionResetter); ok {
		return r.ResetSession(ctx)
	}
	return nil
}

type simTx struct {
	c  *simConn
	in driver.Tx
}

func (t *simTx) Commit() error {
	if t.c.dead {
		return driver.ErrBadConn
	}
	f, lost := t.c.s.point(context.Background(), "commit", "")
	if f {
		if t.c.s.Mode == 0 {
			// a COMMIT that fails aborts the transaction (SQLite rolls back on commit errors other than BUSY)
			_ = t.in.Rollback()
		}
		return t.c.fail("commit")
	}
	err := t.in.Commit()
	if lost && err == nil {
		t.c.dead = true
		_ = t.c.in.Close()
		return fmt.Errorf("%w: connection lost after commit", ErrSimSQL)
	}
	return err
}
func (t *simTx) Rollback() error {
	if t.c.dead {
		return driver.ErrBadConn
	}
	return t.in.Rollback()
}

type simStmt struct {
	c  *simConn
	in driver.Stmt
	q  string
}

func (s *simStmt) Close() error  { return s.in.Close() }
func (s *simStmt) NumInput() int { return s.in.NumInput() }
func (s *simStmt) Exec(args []driver.Value) (driver.Result, error) {
	return nil, errors.New("sim: legacy Exec not supported")
}
func (s *simStmt) Query(args []driver.Value) (driver.Rows, error) {
	return nil, errors.New("sim: legacy Query not supported")
}
func (s *simStmt) ExecContext(ctx context.Context, args []driver.NamedValue) (driver.Result, error) {
	if s.c.dead {
		return nil, driver.ErrBadConn
	}
	if f, _ := s.c.s.point(ctx, "exec", s.q); f {
		return nil, s.c.fail("exec")
	}
	return s.in.(driver.StmtExecContext).ExecContext(ctx, args)
}
func (s *simStmt) QueryContext(ctx context.Context, args []driver.NamedValue) (driver.Rows, error) {
	if s.c.dead {
		return nil, driver.ErrBadConn
	}
	if f, _ := s.c.s.point(ctx, "query", s.q); f {
		return nil, s.c.fail("query")
	}
	return s.in.(driver.StmtQueryContext).QueryContext(ctx, args)
}

var _ io.Closer = (*simConn)(nil)

package hsql

import (
	"context"
	"fmt"

	openfgav1 "github.com/openfga/api/proto/openfga/v1"

	"github.com/openfga/openfga/pkg/server"
	"github.com/openfga/openfga/pkg/storage"
)

// universeModel makes every tuple of the storage universe (uObjs x uRels x uUsers x conditions) valid.
func universeModel() *openfgav1.AuthorizationModel {
	refs := func() []*openfgav1.RelationReference {
		var out []*openfgav1.RelationReference
		for _, c := range []string{"", "c1", "c2"} {
			out = append(out,
				&openfgav1.RelationReference{Type: "user", Condition: c},
				&openfgav1.RelationReference{Type: "user", Condition: c, RelationOrWildcard: &openfgav1.RelationReference_Wildcard{Wildcard: &openfgav1.Wildcard{}}},
				&openfgav1.RelationReference{Type: "group", Condition: c, RelationOrWildcard: &openfgav1.RelationReference_Relation{Relation: "member"}},
				&openfgav1.RelationReference{Type: "group", Condition: c, RelationOrWildcard: &openfgav1.RelationReference_Relation{Relation: "viewer"}},
				&openfgav1.RelationReference{Type: "doc", Condition: c, RelationOrWildcard: &openfgav1.RelationReference_Relation{Relation: "member"}},
				&openfgav1.RelationReference{Type: "doc", Condition: c, RelationOrWildcard: &openfgav1.RelationReference_Relation{Relation: "viewer"}},
				&openfgav1.RelationReference{Type: "doc", Condition: c})
		}
		return out
	}
	this := func() *openfgav1.Userset {
		return &openfgav1.Userset{Userset: &openfgav1.Userset_This{This: &openfgav1.DirectUserset{}}}
	}
	typ := func(name string) *openfgav1.TypeDefinition {
		return &openfgav1.TypeDefinition{Type: name,
			Relations: map[string]*openfgav1.Userset{"viewer": this(), "member": this()},
			Metadata: &openfgav1.Metadata{Relations: map[string]*openfgav1.RelationMetadata{
				"viewer": {DirectlyRelatedUserTypes: refs()}, "member": {DirectlyRelatedUserTypes: refs()}}}}
	}
	cond := func(name string) *openfgav1.Condition {
		return &openfgav1.Condition{Name: name, Expression: "x < 100", Parameters: map[string]*openfgav1.ConditionParamTypeRef{"x": {TypeName: openfgav1.ConditionParamTypeRef_TYPE_NAME_INT}}}
	}
	return &openfgav1.AuthorizationModel{SchemaVersion: "1.1",
		TypeDefinitions: []*openfgav1.TypeDefinition{{Type: "user"}, typ("doc"), typ("group"), typ("docs")},
		Conditions:      map[string]*openfgav1.Condition{"c1": cond("c1"), "c2": cond("c2")}}
}

type backend struct {
	name    string
	ds      storage.OpenFGADatastore
	s       *server.Server
	modelID string
}

// servers starts one real Server per backend and writes the universe model into the scenario store.
func (e *env) servers(opts ...server.OpenFGAServiceV1Option) ([]*backend, error) {
	var out []*backend
	for _, b := range []*backend{{name: "memory", ds: e.mem}, {name: "sqlite", ds: e.sql}} {
		s, err := server.NewServerWithOpts(append([]server.OpenFGAServiceV1Option{server.WithDatastore(b.ds)}, opts...)...)
		if err != nil {
			return nil, err
		}
		b.s = s
		m := universeModel()
		resp, err := s.WriteAuthorizationModel(context.Background(), &openfgav1.WriteAuthorizationModelRequest{StoreId: e.store, SchemaVersion: m.GetSchemaVersion(), TypeDefinitions: m.GetTypeDefinitions(), Conditions: m.GetConditions()})
		if err != nil {
			return nil, fmt.Errorf("%s: write model: %w", b.name, err)
		}
		b.modelID = resp.GetAuthorizationModelId()
		out = append(out, b)
	}
	return out, nil
}

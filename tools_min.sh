#!/bin/sh
# usage: tools_min.sh <replay-or-scan-file> [harness] [budget_s] -- minimise and print the result file /tmp/vt/min.json
h=${2:-hengine}; b=${3:-90}
python3 - "$1" $b <<'PY'
import json,sys
d=json.load(open(sys.argv[1]))
json.dump({"mode":"minimise","property":d["property"],"scenario":d["scenario"],"budget_s":float(sys.argv[2]),"out":"/tmp/vt/minout.jsonl"},open('/tmp/vt/minjob.json','w'))
PY
VSIM_JOB=/tmp/vt/minjob.json GOMAXPROCS=1 GODEBUG=asyncpreemptoff=1 /verif/bin/$h.test -test.run '^TestWorker$' -test.count=1 >/dev/null 2>&1
python3 - <<'PY'
import json
for l in open('/tmp/vt/minout.jsonl'):
    r=json.loads(l)
    if r['kind']=='min':
        json.dump({"property":r['scenario']['property'],"violation":r['outcome'].get('violation'),"scenario":r['scenario']},open('/tmp/vt/min.json','w'),indent=1)
        print('steps',r.get('steps'),'violation',(r['outcome'].get('violation') or {}).get('class'))
PY

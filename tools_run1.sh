#!/bin/sh
# usage: tools_run1.sh <prop> <verif_seed> <run_index> [harness] [tier] -- execute exactly one run of a batch (debugging helper)
h=${4:-hengine}; t=${5:-quick}
mkdir -p /tmp/vt
cat > /tmp/vt/run1job.json <<J
{"mode":"run","property":"$1","seed":$2,"start":$3,"count":1,"stride":1,"tier":"$t","out":"/tmp/vt/run1.jsonl","keep_going":true}
J
VSIM_JOB=/tmp/vt/run1job.json GOMAXPROCS=1 GODEBUG=asyncpreemptoff=1 timeout -s QUIT ${TMO:-60} /verif/bin/$h.test -test.run '^TestWorker$' -test.count=1 > /tmp/vt/run1.stdout 2>&1
echo "exit=$?"
python3 - <<'PY'
import json
for l in open('/tmp/vt/run1.jsonl'):
    r=json.loads(l)
    if r['kind']=='end':
        o=r['outcome']; print('wall_ms',r.get('wall_ms'),'VIOLATION:',o.get('violation'),'INFRA:',o.get('infra'),'skip',o.get('skipped'))
PY

#!/bin/sh
# keeps (and stages) the replay files the current evidence files and the corpus refer to; removes the
# other UNTRACKED replay files (older runs, other seeds)
cd /verif
grep -oh "replays/[A-Za-z0-9_-]*\.json" evidence/*.json known_findings.json DESIGN.md 2>/dev/null | sort -u > /tmp/keep-replays.txt
for f in $(git ls-files --others --exclude-standard replays | grep -v "^replays/scan/"); do
  if grep -qx "$f" /tmp/keep-replays.txt; then git add "$f"; else rm -f "$f"; fi
done
rm -f /tmp/keep-replays.txt
echo "replays now: $(ls replays | wc -l) files"
